# Per-property configuration of the driver (./check). One entry per claimed property.
#   test      name of the Go test function in harness/props
#   quick / thorough: shards (processes), checks (rapid cases per shard), timeout (s)
#   level     MANIFEST level_claimed.category
#   rule      how cases are generated / what is non-trivial (copied into the evidence)
#   required  class labels (prefix match) that must have been generated, else the run is inconclusive
CHECKS = {}

CHECKS["C19"] = dict(
    test="TestC19", level="exploration",
    quick=dict(shards=8, checks=20000, timeout=300),
    thorough=dict(shards=16, checks=600000, timeout=1800, shrinktime="120s"),
    rule="rapid-generated Get/Put/foreign-Put histories (sizes concentrated on k*step+-1 and 2^k+-1) on byte-slice and "
         "bytes.Buffer pools of 10 configurations incl. the DefaultPool configuration (65536), sequential under GOMAXPROCS(1) "
         "so that a Put is handed to the next matching Get, 5% with 2-4 concurrent workers; plus size-class arithmetic vs "
         "math/bits, exhaustive below 2^20 (2^24 thorough) and around every power of two up to MaxInt. "
         "Non-trivial = some Get was served with a previously Put buffer (backing-array identity). Distinct by hash of the case.",
    required=["reuse", "foreign-put-offclass", "get-above-max", "math", "kind:bytes", "kind:buffer", "concurrent"],
    replay_repeat=200,
    assumptions=["sync.Pool hand-over is deterministic only under GOMAXPROCS(1) and without two intervening GCs; a dropped pooled buffer lowers the non-trivial count but cannot cause an alarm",
                 "identity of a buffer = address of its backing array (all buffers of a case are kept alive so addresses are not reused)"],
)
