# Per-property configuration of the driver (./check). One entry per claimed property.
#   test      name of the Go test function in harness/props
#   quick / thorough: shards (processes), checks (rapid cases per shard), timeout (s)
#   level     MANIFEST level_claimed.category
#   rule      how cases are generated / what is non-trivial (copied into the evidence)
#   required  class labels (prefix match) that must have been generated, else the run is inconclusive
CHECKS = {}

CHECKS["C19"] = dict(
    test="TestC19", level="exploration",
    quick=dict(shards=8, checks=20000, timeout=300),
    thorough=dict(shards=16, checks=2000000, timeout=3000, shrinktime="120s"),
    rule="rapid-generated Get/Put/foreign-Put histories (sizes concentrated on k*step+-1 and 2^k+-1) on byte-slice and "
         "bytes.Buffer pools of 10 configurations incl. the DefaultPool configuration (65536), sequential under GOMAXPROCS(1) "
         "so that a Put is handed to the next matching Get, 5% with 2-4 concurrent workers; plus size-class arithmetic vs "
         "math/bits, exhaustive below 2^20 (2^24 thorough) and around every power of two up to MaxInt. "
         "Non-trivial = some Get was served with a previously Put buffer (backing-array identity). Distinct by hash of the case.",
    required=["reuse", "foreign-put-offclass", "get-above-max", "math", "kind:bytes", "kind:buffer", "concurrent"],
    replay_repeat=200,
    assumptions=["sync.Pool hand-over is deterministic only under GOMAXPROCS(1) and without two intervening GCs; a dropped pooled buffer lowers the non-trivial count but cannot cause an alarm",
                 "identity of a buffer = address of its backing array (all buffers of a case are kept alive so addresses are not reused)"],
)

CHECKS["C04"] = dict(
    fuzz=[dict(name="FuzzC04", seconds=90)],
    test="TestC04", level="exploration",
    quick=dict(shards=8, checks=12000, timeout=300),
    thorough=dict(shards=16, checks=350000, timeout=3000, shrinktime="120s"),
    rule="rapid-generated codec configurations (length-field widths 1/2/4/8 x byte order x offset x adjustment x strip; stand-alone "
         "prepender paired with the matching decoder incl. adjustments that put the 2^8/2^16/2^32 field capacity within reach; varint; "
         "delimiter 1-4 bytes incl. self-overlapping ones; fixed) x 1-6 payloads with boundary-biased lengths x 8 carrier types x "
         "fragmentations (1-byte reads, one read, random cuts). Frames come from the shipped encoder (judged by an independent reference "
         "deframer: header must agree with body or the encoder must raise) or from the reference framer; the decoder is called once per "
         "frame exactly like the read loop and must deliver the reference message and stop exactly at the frame end; 2% of cases run through "
         "a real channel and read loop. Non-trivial = >=2 frames in the stream and a read boundary strictly inside a frame. Distinct by case hash.",
    required=["arena", "codec:lf", "codec:prep", "codec:varint", "codec:delim", "codec:fixed", "width:1", "width:2", "width:4", "width:8",
              "one-byte-reads", "length-field-at-capacity", "frame-at-max", "layer:channel", "multi-frame", "cut-inside-frame",
              "carrier:bytes", "carrier:string", "carrier:buffer", "carrier:breader", "carrier:sreader", "carrier:bb", "carrier:reader", "carrier:short"],
    assumptions=["reference framers follow the parameter documentation (Netty semantics for the length-field codec)",
                 "delimiter payloads are admissible only if the first delimiter occurrence in payload+delimiter is at len(payload)",
                 "the consumer reads every delivered message to its end before returning, as codec users must"],
)

CHECKS["C08"] = dict(
    fuzz=[dict(name="FuzzC08", seconds=120)],
    test="TestC08", level="fault_enumeration",
    quick=dict(shards=8, checks=15000, timeout=300),
    thorough=dict(shards=16, checks=1500000, timeout=3000, shrinktime="120s"),
    rule="rapid-generated adversarial byte streams per decoder configuration (small and large max): valid frames from the reference framer "
         "interleaved with frames 1-3 bytes over max, hostile length fields (0, max, max+1, 2^k-1, sign bit, below-header, below-strip), "
         "over-long/overflowing uvarints, missing or partial delimiters and random bytes; the stream then ends at a generated cut point "
         "(inside a header, inside a body, at a frame boundary) with EOF or a read error, under generated fragmentation. Each HandleRead "
         "call is judged against an independent reference decoder: a delivered message must be the complete next frame, inadmissible or "
         "truncated frames and end-of-stream must raise (never a runtime error), bytes pulled per frame are bounded, every call makes "
         "progress; 5% of cases run through a real channel/read loop (peer EOF / read error / parked). "
         "Non-trivial = the first malformed or truncated frame follows at least one valid frame. Distinct by case hash.",
    required=["inbound:packets", "packet-truncated-frame-raised", "empty-reads", "codec:varlen", "varlen:source-offers-more-than-max", "codec:lf", "codec:prep", "codec:varint", "codec:delim", "codec:fixed", "layer:channel", "bad-after-valid",
              "first-bad:truncated", "first-bad:reject", "ends-at-frame-boundary", "end:eof", "end:err", "end:park", "delivered-ok", "raised:"],
    assumptions=["reference decoders follow the documented parameter semantics",
                 "a message whose consumer-side read ends with a non-EOF error counts as not delivered (a real consumer raises)"],
)

CHECKS["C16"] = dict(
    fuzz=[dict(name="FuzzC16", seconds=90)],
    test="TestC16", level="exploration",
    quick=dict(shards=8, checks=15000, timeout=300),
    thorough=dict(shards=16, checks=2000000, timeout=3000, shrinktime="120s"),
    rule="rapid-generated (a) byte strings (arbitrary bytes, invalid UTF-8, NUL, sizes over pool classes) written and read through the "
         "text codec via 5 inbound carrier types; (b) JSON object trees (depth<=5; unicode/escaped/empty keys; null/bool/string/array/"
         "object; number literals incl. +-2^53+-1, 2^63-1, 2^64-1, 30-digit integers, exponents, -0, 1e400; native int64/uint64/float64) "
         "written as map / RawMessage / struct and read back under both UseNumber settings, compared structurally with numbers compared "
         "exactly (big.Rat) when number preservation is on; (c) raw frames: a valid object mutated by truncation at every position, "
         "non-object top level, leading garbage, bad escapes, control characters, broken braces (must raise, deliver nothing), or followed "
         "by trailing bytes / preceded by whitespace (must equal the encoding/json reference decode); 5% through a real channel with a "
         "varint frame codec underneath. Non-trivial = nesting >= 2, an integer beyond 2^53, a malformed frame, invalid UTF-8 or > 1024 bytes of text.",
    required=["json-sequence-held", "carrier:via-lf", "carrier:via-fixed", "mode:text", "mode:json-roundtrip", "mode:json-frame", "mutation:truncate", "mutation:toplevel", "mutation:garbage",
              "mutation:escape", "mutation:trailing", "json-bigint:usenum=true", "json-bigint:usenum=false", "json-nested", "text-invalid-utf8",
              "layer:channel", "carrier:frag", "out:map", "out:raw", "out:struct", "text-sequence"],
    assumptions=["encoding/json is the reference for what a complete valid JSON object is",
                 "without number preservation, literals outside float64 are outside the round-trip contract"],
)

CHECKS["C17"] = dict(
    test="TestC17", level="exploration",
    quick=dict(shards=8, checks=25000, timeout=300),
    thorough=dict(shards=16, checks=4000000, timeout=3000, shrinktime="120s"),
    rule="rapid-generated operation sequences (Write, Writev with 0-4 segments, Flush, Read; payload sizes 0, 1, size-1, size, size+1, "
         "3*size and random around the write-buffer size) on transport.NewTransport over an in-memory net.Conn for all four wrapper "
         "variants (read/write buffer sizes from 0,1,2,7,16,17,64,4096), with the peer's bytes arriving in generated fragments and read "
         "with generated buffer sizes. Oracle = one growing byte string: bytes seen by the peer are always a prefix of the bytes written, "
         "equal after every Flush; Write/Writev report the full count and leave the caller's segment contents intact; all reads together "
         "equal the peer's bytes. Non-trivial = a Writev issued while earlier bytes were still buffered, or a payload larger than the "
         "write buffer. Distinct by case hash.",
    required=["fault:fired", "fault:flush-succeeded-after-a-failure", "variant:raw", "variant:read", "variant:write", "variant:both", "writev-while-bytes-pending", "payload-larger-than-buffer", "flush", "peer-fragmented"],
    assumptions=["the in-memory net.Conn accepts every write completely, like a healthy connection"],
)

CHECKS["C14"] = dict(
    fuzz=[dict(name="FuzzC14", seconds=60)],
    test="TestC14", level="exploration",
    quick=dict(shards=8, checks=6000, timeout=300),
    thorough=dict(shards=16, checks=400000, timeout=3000, shrinktime="120s"),
    rule="rapid-generated messages: 14 supported carriers ([]byte, [][]byte with empty segments, *bytes.Buffer, *bytes.Reader, "
         "*strings.Reader, *net.Buffers, WriterTo with one / many writes / many writes from a reused scratch buffer, bufio.Reader, plain "
         "io.Reader, short-reading reader, reader returning data together with EOF, reader failing after k bytes) and 6 unsupported types x "
         "sizes 0,1,1023-1025,2047-2049,4095-4097,65535-65537,200000 and random x read/segment sizes, written with Channel.Write on a "
         "synchronous and on queued channels (queue 1,2,8,64; inline-sender executor) over the mock transport: the transmitted stream must "
         "equal the content (prefix + one exception for a failing reader; nothing + one exception for unsupported types); and the helpers "
         "ToBytes/ToReader/CountOf/NewByteReader/StealBytes over the same carriers against io.ReadAll-style references. "
         "Non-trivial = size > 1024, a short/EOF-with-data/failing reader, a buffer-reusing WriterTo, or an unsupported type.",
    required=["carrier:bbalias", "prelude:ctxwrite1-expired", "prelude:ctxwritev-expired", "mode:head", "mode:tobytes", "mode:toreader", "mode:countof", "mode:bytereader", "mode:stealbytes", "channel:sync", "channel:queued",
              "bytes:>1024", "bb:>1024", "buffer:>1024", "breader:>1024", "reader:>1024", "short:>1024", "eofdata:>1024", "wtN:>1024", "netbuffers:>1024",
              "reader:<=1024", "carrier:errafter", "carrier:string", "carrier:nil", "carrier:httpreq", "carrier:bufio", "carrier:wtReuse"],
    assumptions=["a byte returned by ReadByte together with an error counts as not delivered (io.ByteReader contract)",
                 "io.Writer implementations must not retain the slice they are given, so a WriterTo may reuse its buffer between writes"],
)

_E1_ASSUME = ["interleavings are explored at the granularity of hook points (verifPoint) and mock transport/executor calls; finer interleavings (inside copy, inside a Go channel operation) are not",
              "the mock transport accepts every write while open, buffers until Flush when configured so, and consumes the vector passed to Writev like net.Buffers.WriteTo",
              "select among several ready cases and sync.Pool reuse are runtime choices the harness does not own; the oracle accepts every outcome the statement allows"]

CHECKS["C01"] = dict(
    test="TestC01", level="exploration",
    quick=dict(shards=8, checks=6000, timeout=300),
    thorough=dict(shards=16, checks=700000, timeout=3000, shrinktime="120s"),
    rule="cooperative-scheduler cases: channel kind (sync, queued blocking, queued non-blocking; queue 1,2,3,4,8) x buffered/pass-through and "
         "split-write mock transport x 1-3 (thorough 1-4) writer tasks x 1-4 (1-6) calls over the five low-level entry points, Writev with "
         "0-4 segments incl. empty ones, payload sizes 0-9, 16, 100, 1023-1025, 2047-2049, 4095-4097, 65535-65537, 70000 x a generated "
         "schedule (list of task switches, <=200 decisions) optionally preceded by a directed prefix into the sender's flush/release window. "
         "Oracle: the transport byte stream parsed by call-id table: only successful calls, each once, bytes identical, per-task order, "
         "real-time order, prefix-closed; (n, err) consistent. Non-trivial = >=2 writers and (>=2 packets queued at some decision, or an "
         "enqueue while the sender was between its last poll and its release, or a writer blocked on the write lock). Distinct by case hash.",
    required=["kind:sync", "kind:qblock", "kind:qnonblock", "queue:1", "queue:2", "queue:>2", "blocked-on-full-queue",
              "enqueue-in-release-window", "sync-lock-contended", "preempt:>=3", "entry:write1", "entry:writev", "entry:ctxwrite1",
              "entry:ctxwritev", "entry:writerwrite", "size:0", "size:~1024", "size:class-boundary", "size:>=65535"],
    assumptions=_E1_ASSUME,
)
CHECKS["C02"] = dict(
    test="TestC02", level="exploration",
    quick=dict(shards=8, checks=6000, timeout=900),
    thorough=dict(shards=16, checks=1000000, timeout=3000, shrinktime="120s"),
    rule="same scenario family as C01, biased to queued channels and to directed prefixes that park the sender at send.beforeFlush / "
         "t.flush / send.beforeRelease / send.afterRelease / around Writev while a writer passes its enqueue; the channel stays open and "
         "nothing else is done. Oracle at the terminal state of the harness-owned executor (no runnable task, so nothing can change any "
         "more): every payload whose call reported success has been handed to the transport, no accepted byte is unflushed, no writer is "
         "parked for ever. about 1 case in 400 is a real-goroutine stress (2-3 writers x 5-20 writes on a queue of 1-2 with the default executor, 400 "
         "rounds) for windows without any hook point; there the terminal state is 'all writers returned and no sender action submitted "
         "or running' (counted by the executor), so a stranded packet is a fact. Non-trivial = an enqueue happened while the sender was between its last queue poll and its release. Distinct by case hash.",
    required=["more-than-a-megabyte-queued", "kind:qblock", "kind:qnonblock", "kind:sync", "queue:1", "queue:2", "queue:>2", "enqueue-in-release-window", "multi-enqueue", "sender-restarted", "stress"],
    assumptions=_E1_ASSUME + ["'eventually' is decided as stuck-state detection: every action handed to the executor has run to completion"],
)
CHECKS["C10"] = dict(
    test="TestC10", level="exploration",
    quick=dict(shards=8, checks=6000, timeout=300),
    thorough=dict(shards=16, checks=1000000, timeout=3000, shrinktime="120s"),
    env={"GOMAXPROCS": "1"},
    rule="same scenario family as C01 (all entry points and sizes over every pool class, plus ReadFrom with short-reading sources on "
         "single-writer cases), where every writer overwrites its buffer with a poison pattern as its very next step after each call "
         "returns and reuses the same backing array for its next call, and 0-2 scribbler tasks obtain pooled buffers of generated sizes, "
         "fill their whole capacity with another poison, yield, and put them back; GOMAXPROCS(1) so that sync.Pool hand-over is "
         "deterministic. Oracle: the bytes the mock transport received (copied at that moment) parse into payloads equal to the snapshot "
         "taken at call time. Non-trivial = a buffer was poisoned, or a scribbler obtained a buffer, while a payload was still queued or in "
         "the sender's batch. Distinct by case hash.",
    required=["poisoned-while-pending", "scribbled-while-pending", "entry:readfrom", "entry:write1", "entry:writev", "entry:ctxwrite1",
              "entry:ctxwritev", "entry:writerwrite", "kind:qblock", "kind:qnonblock", "size:>=65535", "size:~1024"],
    assumptions=_E1_ASSUME,
)

CHECKS["C06"] = dict(
    test="TestC06", level="exploration",
    quick=dict(shards=16, checks=160, timeout=400),
    thorough=dict(shards=16, checks=4000, timeout=3400, shrinktime="120s"),
    stages=[
        dict(name="real-sleep", env={}, quick=dict(shards=8, checks=160, timeout=400), thorough=dict(shards=8, checks=4000, timeout=3400, shrinktime="120s")),
        dict(name="no-sleep", vclock=True, class_prefix="nosleep:", env={"VERIF_NOSLEEP": "1"},
             quick=dict(shards=8, checks=3000, timeout=400), thorough=dict(shards=8, checks=400000, timeout=3400, shrinktime="120s")),
    ],
    rule="cooperative-scheduler cases on queued channels (queue 1,2,3,4,6; wait-for-writes and bounded-wait mode): 1-3 writer tasks x 1-4 "
         "calls over the five entry points, then one Close (own closer task enabled only when every writer task has ended, or issued by "
         "the single writer itself) with error nil/sentinel/wrapped; generated schedule plus directed prefixes that park the sender at "
         "send.top/beforeWritev/afterWritev/beforeFlush/t.flush/beforeRelease/afterRelease and the closer at close.won/close.wait/"
         "close.beforeTransportClose; 0-2 futile Close polls (real 100 ms sleeps) allowed per case, so the closer never exhausts the "
         "bounded grace period. Oracle: every payload whose call returned success before Close was invoked is in the transport stream "
         "and was flushed before the transport's Close event; no Close event inside a sender Writev. Non-trivial = Close began while a "
         "sender task existed and had not ended. Distinct by case hash.",
    required=["close-overlaps-sender", "untilwrite:true", "untilwrite:false", "closer-stepped-while-sender-at:send.afterRelease",
              "closer-stepped-while-sender-at:send.beforeRelease", "closer-stepped-while-sender-at:send.beforeFlush",
              "closer-stepped-while-sender-at:send.afterWritev", "queue:1", "queue:2", "queue:>2"],
    assumptions=_E1_ASSUME + ["stage real-sleep: Close's 100 ms poll sleep is real time, cases that overlap Close with a running sender are budgeted by count",
                               "stage no-sleep (clock-redirected build, see C20): time.Sleep in the root package takes no wall time and is added to a virtual 'slept' total; a bounded-wait Close that slept >= 1 s in total has exhausted the grace period (10 x 100 ms on this tree) and is exempt"],
)

CHECKS["C11"] = dict(
    test="TestC11", level="exploration",
    quick=dict(shards=16, checks=500, timeout=400),
    thorough=dict(shards=16, checks=10000, timeout=3400, shrinktime="120s"),
    stages=[
        dict(name="real-sleep", env={}, quick=dict(shards=8, checks=500, timeout=400), thorough=dict(shards=8, checks=10000, timeout=3400, shrinktime="120s")),
        dict(name="no-sleep", vclock=True, class_prefix="nosleep:", env={"VERIF_NOSLEEP": "1"},
             quick=dict(shards=8, checks=2500, timeout=400), thorough=dict(shards=8, checks=150000, timeout=3400, shrinktime="120s")),
    ],
    rule="cooperative-scheduler cases: channel kind (sync, queued blocking/non-blocking, queue 1-8) x who closed (user Close with nil / "
         "sentinel / wrapped / io.EOF / net.Error argument; the read loop after parent-context cancellation, i.e. Close(nil); the tail "
         "handler after peer EOF or a read failure; the sender after an injected Writev failure) x optional traffic before and "
         "overlapping the close x a writer task that is enabled only once the Close that took effect has returned and then issues 4-12 "
         "calls (repeated because the outcome of select is a runtime choice) over all seven write entry points with background, live and "
         "cancelled caller contexts. Oracle: each such call returns a non-nil error, reports n == 0, none of its bytes are in the "
         "transport stream, and the transport accepts nothing after its Close. Non-trivial = queued channel (enqueue arm of the select "
         "ready) or nil Close argument. Distinct by case hash.",
    required=["after-close:write:", "after-close:write1:", "after-close:writev:", "after-close:ctxwrite1:", "after-close:ctxwritev:",
              "after-close:readfrom:", "after-close:writerwrite:", "after-losing-close-returned", "close-arg-nil:true", "close-arg-nil:false", "kind:sync", "kind:qblock", "kind:qnonblock"],
    assumptions=_E1_ASSUME + ["'Close has returned' is observed as: inactive delivered and no task inside Close any more"],
)

CHECKS["C18"] = dict(
    test="TestC18", level="exploration",
    quick=dict(shards=16, checks=400, timeout=400),
    thorough=dict(shards=16, checks=8000, timeout=3400, shrinktime="120s"),
    stages=[
        dict(name="real-sleep", env={}, quick=dict(shards=8, checks=400, timeout=400), thorough=dict(shards=8, checks=8000, timeout=3400, shrinktime="120s")),
        dict(name="no-sleep", vclock=True, class_prefix="nosleep:", env={"VERIF_NOSLEEP": "1"},
             quick=dict(shards=8, checks=2000, timeout=400), thorough=dict(shards=8, checks=30000, timeout=3400, shrinktime="120s")),
    ],
    rule="cooperative-scheduler cases on queued channels (queue 1-4, blocking and non-blocking mode): 1-4 writer tasks x 1-5 calls over the "
         "five entry points with background / already-cancelled / live caller contexts (a canceller task cancels the live ones at a "
         "scheduled moment), sender normal, never scheduled before the final sweep (stalled executor) or parked inside the transport's "
         "Writev by a directed prefix, optionally a concurrent Close. The state at the instant a call passes the enqueue point (queue "
         "full? caller context done? channel done?) is read while nothing else runs, so the oracle is exact: non-blocking calls return "
         "the queue-full error iff the queue is full and nothing is done, never block; blocking calls are parked only while full and "
         "nothing done, and return success (room) / the context error / a closed error accordingly; a failed call transmits nothing; "
         "accepted-but-unsent payloads never exceed queue + batch; at the terminal state a blocking writer on a full queue is forced on "
         "and must be found waiting in the enqueue select. Non-trivial = some call met a full queue. Distinct by case hash.",
    required=["queue-full-at-call", "returned:no-space", "returned:ctx-cancelled", "returned:closed", "parked-then-released-by-room",
              "parked-then-released-by-error", "probe:blocking-writer-waits", "stall:never", "kind:qblock", "kind:qnonblock", "queue:1", "queue:2", "queue:>2"],
    assumptions=_E1_ASSUME,
)

CHECKS["C05"] = dict(
    test="TestC05", level="exploration",
    quick=dict(shards=16, checks=500, timeout=400),
    thorough=dict(shards=16, checks=60000, timeout=3400, shrinktime="120s"),
    stages=[
        dict(name="real-sleep", env={}, quick=dict(shards=8, checks=500, timeout=400), thorough=dict(shards=8, checks=60000, timeout=3400, shrinktime="120s")),
        dict(name="no-sleep", vclock=True, class_prefix="nosleep:", env={"VERIF_NOSLEEP": "1"},
             quick=dict(shards=8, checks=3000, timeout=400), thorough=dict(shards=8, checks=1000000, timeout=3400, shrinktime="120s")),
    ],
    rule="cooperative-scheduler cases with the pipeline [real ChannelHolder, lifecycle probe, recorders, transport reader]: 0-4 closer tasks "
         "with distinct error values (one may be nil), Close from inside HandleActive / the k-th HandleRead / HandleEvent, parent-context "
         "cancellation, peer EOF, read failure (timeout, non-timeout net.Error, plain error), injected sender-side Writev/Flush failure, "
         "holder.CloseAll, a feeder delivering inbound chunks, 0-2 writers, user events; in 2/3 of the cases the activation itself "
         "(ServeChannel + read-loop start) runs under the scheduler so that closers race it; generated schedule. Oracle over the recorded "
         "history: active once, completed before ServeChannel returned and before the first read; read deliveries never overlap; exactly "
         "one Close takes effect, transport closed once, inactive once, inside that Close call and carrying its argument (identity); "
         "IsActive false right after every Close return; context cancelled after the effective Close returned; read loop ends after a "
         "read failure. 1 case in 40 is a stress case without scheduler (2-8 real goroutines released by a barrier call Close at once, "
         "150 rounds) because the closer election itself contains no yield point; 1 case in 200 connects 2-8 real goroutines at once "
         "through one bootstrap with its defaults (sequence ids, channel holder), 300 rounds: every channel handed out has had its active "
         "event exactly once behind the holder, and after Close its inactive event exactly once. Non-trivial = at least two Close calls whose executions overlap. Distinct by case hash.",
    replay_repeat=30,
    required=["closes-overlap", "stress", "connect-stress", "scheduled-activation", "close-source:task", "close-source:HandleActive", "close-source:HandleRead",
              "close-source:HandleEvent", "close-source:holder", "winner:implicit", "nil-error-close", "read-failed", "read-failure-swallowed-by-handler", "read-failure-wrapped", "reads-delivered",
              "kind:sync", "kind:qblock", "kind:qnonblock"],
    assumptions=_E1_ASSUME + ["ServeChannel's wait for the activation has no yield point: its task continues on its own (detached) and its return is ordered by sequence numbers"],
)

CHECKS["C09"] = dict(
    test="TestC09", level="exploration",
    quick=dict(shards=8, checks=2000, timeout=300),
    thorough=dict(shards=16, checks=50000, timeout=3000, shrinktime="120s"),
    rule="cooperative-scheduler cases: 2-4 writer tasks each calling Channel.Write 1-4 times on a sync or queued channel, message carriers "
         "[]byte, [][]byte, *bytes.Buffer, *bytes.Reader, multi-write WriterTo, io.Reader (one chunk / several chunks / short reads), string "
         "via the text codec; sizes 1-2500 around the 1024-byte streaming chunk; pipelines: none, delimiter, delimiter+text (the README "
         "pipeline), length-field, varint; schedule with frequent switches. Oracle: the wire bytes at quiescence parse into whole messages "
         "(call-id table without codecs, independent reference deframer with codecs); any frame/message with foreign bytes inside is a "
         "violation whose signature names the carrier and path. Carriers belonging to a listed finding (messages the head handler streams "
         "as several low-level writes) are excluded from the concurrent mix by construction and counted. Non-trivial = low-level writes of "
         "different writers alternated at least twice on the channel. Distinct by case hash.",
    required=["carrier:arena", "writers-alternate", "pipe:", "pipe:delim", "pipe:lf", "pipe:varint", "kind:sync", "kind:qblock", "carrier:bytes", "carrier:bb",
              "carrier:buffer", "carrier:breader", "carrier:reader"],
    assumptions=_E1_ASSUME,
)

CHECKS["C03"] = dict(
    test="TestC03", level="exploration",
    quick=dict(shards=8, checks=15000, timeout=300),
    thorough=dict(shards=16, checks=700000, timeout=3000, shrinktime="120s"),
    rule="rapid-generated build programs of 0-10 AddFirst/AddLast/AddHandler operations (every legal position -1..size-1, 1-3 handlers per "
         "call, repeated instances; illegal positions and handlers without any interface as negative cases that must panic and leave the "
         "pipeline unchanged) over a pool of 1-6 handlers whose Go types implement an arbitrary subset of the six handler interfaces (64 "
         "generated types, genuine method sets) with a forward/stop choice per event kind and ctx.Write/ctx.Trigger actions; then the "
         "channel is served (activation by the real read loop) and 1-8 events are injected through every entry point: pipeline Fire* "
         "(read, write, event, exception), Channel.Write, Channel.Trigger, the read loop (a byte fed to the transport), ctx.Write/"
         "ctx.Trigger on ContextAt(pos). Oracle: an independent slice model: Size/IndexOf/LastIndexOf/ContextAt after every build step "
         "(identity, implements-X and always-false predicates, both directions), and for every event the real trace (handler, kind, "
         "payload, context identity == ContextAt(model position), wire writes, transport close) equals the model's. "
         "Non-trivial = >=3 user handlers, a middle insertion on a list >=3, and both an inbound and an outbound event visiting >=2 handlers.",
    required=["middle-insertion", "multi-handler-call", "repeated-instance", "build-refused", "subset-size:1", "subset-size:2", "subset-size:3",
              "subset-size:4", "subset-size:5", "subset-size:6", "entry:fire", "entry:chwrite", "entry:chtrigger", "entry:readloop",
              "entry:ctxwrite", "entry:ctxtrigger", "fire:read", "fire:write", "fire:event", "fire:exception", "closed-by-unhandled-exception"],
    assumptions=["AddFirst(a, b) adds one at a time, so the result is [b, a, ...]: the model encodes the order these operations define on this codebase",
                 "actions nest at most three levels deep on both sides"],
)

CHECKS["C07"] = dict(
    test="TestC07", level="fault_enumeration", death_is_violation=True,
    quick=dict(shards=8, checks=8000, timeout=300),
    thorough=dict(shards=16, checks=300000, timeout=3000, shrinktime="120s"),
    rule="(1) enumeration: for pipelines of at most three handlers every combination of entry point (Channel.Write, ctx.Write, "
         "Channel.Trigger, ctx.Trigger, read loop, activation) x panic value kind (error, string, runtime error, timeout net.Error, "
         "non-timeout net.Error, wrapped net.Error) x exception-handler shape (absent, forwarding, swallowing; before or after the "
         "panicking handler) x passive handler in between x sync/queued channel, each followed by a harmless Trigger and read to show the "
         "channel stays usable (720 cases, run by shard 0); (2) rapid-generated pipelines of up to 5 handler instances (arbitrary "
         "interface subsets, forward/stop, nested ctx.Write/ctx.Trigger/Channel.Write/Channel.Trigger actions) with 1-2 panic sites, "
         "exception handlers absent/forwarding/swallowing (never panicking), 1-6 events over the five entry points, optionally a failing "
         "transport Read (plain/timeout/net.Error), an explicit Close followed by more events (closed state: containment only), and "
         "injected Write/Writev/Flush failures of the sync path or the sender. Oracle: no panic escapes into the caller, the process "
         "survives (a crash is reported with the case written beforehand), and the real trace equals the pipeline model's: exception "
         "delivered once per exception handler in order up to the first that stops, with the panic value's identity, close with that "
         "exception if unconsumed, failure errors carried by inactive. Non-trivial = a panic site or transport fault actually fired.",
    required=["fault-fired:chwrite", "fault-fired:chtrigger", "fault-fired:readloop", "fault-fired:ctxwrite", "fault-fired:ctxtrigger",
              "value:error", "value:string", "value:runtime", "value:timeout", "value:neterr", "value:wrapped-neterr", "value:stringer-error", "site:active", "site:read",
              "site:write", "site:event", "channel:sync", "channel:queued", "transport-fault-fired", "read-failure:", "state:closed"],
    assumptions=["exception and inactive handlers never panic (the property's proviso)",
                 "a non-timeout net.Error consumed by a handler after being raised through a channel entry point also closes the channel today; the property is silent, both outcomes are accepted from that point on",
                 "a read failure that a handler swallows for ever is outside the statement; the harness closes the channel itself"],
)

CHECKS["C13"] = dict(
    test="TestC13", level="exploration",
    quick=dict(shards=8, checks=4000, timeout=300),
    thorough=dict(shards=16, checks=250000, timeout=3000, shrinktime="120s"),
    rule="rapid-generated histories on a real bootstrap with a mock transport factory and a gated executor (real goroutines; a tracker "
         "counts goroutines running framework code, so 'settled' is a fact, not a timeout): up to 3 listeners started with Async, Sync or "
         "only Listen, client Connects, inbound connections handed to acceptors, user closes and peer EOFs of activated channels, "
         "Listener.Close, and exactly one Shutdown at a generated position; every step chooses whether the executor actions it submits "
         "(accept-loop start, a channel's read loop i.e. its activation) are released at once or held until a later release step; at the "
         "end everything held is released. Oracle at the settled end state: bootstrap context cancelled; every acceptor ever created is "
         "closed and no Accept is outstanding; every started accept loop returned exactly once, with ErrServerClosed unless the listener "
         "was closed explicitly before; every channel's transport closed exactly once, active at most once and before inactive, inactive "
         "exactly once. Non-trivial = Shutdown ran while an accept-loop start or an accepted-but-not-yet-activated connection was held.",
    required=["slow-inactive-handler", "inactive-handler-closes-another-channel", "tcp-listener", "accept-in-flight", "overlap:accept-returned-a-connection-after-shutdown", "write-blocked-in-transport", "overlap:accept-loop-not-started", "overlap:accepted-not-yet-active", "shutdown:first", "shutdown:middle", "shutdown:last",
              "listener-closed-before-shutdown", "channels", "late-release", "inbound-handed", "slow-listen"],
    assumptions=["user code closes only channels that were handed out (activated)", "the holder is observed through its effects (every channel closed), not its map"],
)

CHECKS["C15"] = dict(
    fuzz=[dict(name="FuzzC15", seconds=90)],
    test="TestC15", level="exploration",
    quick=dict(shards=8, checks=6000, timeout=300),
    thorough=dict(shards=16, checks=300000, timeout=3000, shrinktime="120s"),
    rule="grammar-generated sequences of 1-5 HTTP/1.x requests (GET/HEAD/POST/PUT/DELETE/OPTIONS; origin- and absolute-form targets; "
         "HTTP/1.0 and 1.1; repeated and mixed-case headers; Connection close/keep-alive/absent; no body, Content-Length bodies of "
         "0,1,26,100,2047-2049,5000 bytes whose content looks like a request, chunked bodies) pipelined in one read, in 1-byte reads or "
         "random fragments, then parked or ended by peer EOF, on sync and queued channels with the pipeline [ServerCodec, Handler]; per "
         "request a generated handler program (reads none/half/all of the body; Header().Add; WriteHeader with 200/201/404/500/204/304 "
         "or implicit; 0-3 writes of sizes around the 2048-byte buffer; Flush before/between/after writes; framing by exact "
         "Content-Length, Transfer-Encoding chunked (also spelled Chunked), or neither). Oracle: handler invocations == requests up to the "
         "first connection-closing one, in order, with their own method, target, version, header multiset and body bytes; the wire parses "
         "with net/http.ReadResponse into exactly one response per served request with the handler's status, headers and body and nothing "
         "else; the connection stays open iff the request did not ask to close and the response is self-delimiting, and is closed only "
         "after the response bytes; no exception on valid input. Non-trivial = >=2 requests, a body-carrying request, a Flush or a chunked response.",
    required=["resp:chunked-with-trailer", "bodiless-response-with-content-length-then-request", "handler-closes-body-then-request", "handler-writes-body-where-none-is-allowed", "connection-carried-more-than-1MiB", "unread-body-then-request", "handler-flush", "resp:chunked", "resp:none", "resp:cl", "http/1.0", "req-chunked", "fragmented",
              "connection-closed", "connection-kept-open", "channel:sync", "channel:queued"],
    assumptions=["net/http's ReadRequest/ReadResponse are the standard parser", "handlers keep the usual contracts: an explicit Content-Length equals the bytes written; bodiless statuses and HEAD write no body; no chunked responses to HTTP/1.0"],
)

CHECKS["C12"] = dict(
    test="TestC12", level="exploration", race=True,
    env={"GORACE": "halt_on_error=0"},
    quick=dict(shards=4, checks=4, timeout=500),
    thorough=dict(shards=8, checks=300, timeout=3400),
    replay_repeat=5,
    rule="concurrent API programs run under the Go race detector (binary built with -race, real goroutines, real scheduler, real "
         "AsyncExecutor). A program = target (sync / queued blocking / queued non-blocking channel, bootstrap on a mock transport factory, "
         "bootstrap on real loopback TCP, ChannelHolder shared by several channels, idle handlers on a live channel, byte/buffer pools) + "
         "2-4 goroutines with 1-5 operations each from that target's concurrently usable API and a generated pacing (start offset 0/1/20/"
         "120/250 ms, repeat-until 0/50/300 ms, gap 0/0.1/2 ms) so that operations run before, during and after each other's internal "
         "waits. (1) enumeration by shard 0: every unordered pair of operation kinds per target with at least one mutating operation, at "
         "three pacings; (2) rapid-generated batches of 24 programs run concurrently. Oracle: no race report (stderr is captured "
         "in-process and parsed); a report is normalised to function + access kind + trimmed source line of the top go-netty frame of both "
         "stacks. Non-trivial = goroutines of one program touch the same object with at least one mutating operation; class labels record "
         "the operation pairs covered.",
    required=["target:sync", "target:qblock", "target:qnonblock", "target:bootstrap", "target:tcp", "target:holder", "target:idle", "target:pool", "target:bare", "target:json",
              "pair:qblock:close~write1", "pair:bootstrap:listen-async~shutdown", "pair:holder:closeall~open-channel"],
    assumptions=["only executed code is judged; the detector keeps a bounded access history per word, hence repetitions and pacing",
                 "harness data shared between goroutines is synchronised; a report without any go-netty frame is treated as a harness bug (inconclusive)",
                 "operations the property excludes (pipeline mutation while events flow, attachment access) are never generated"],
)

CHECKS["C20"] = dict(
    test="TestC20", level="exploration", death_is_violation=True,
    quick=dict(shards=4, checks=2, timeout=300),
    thorough=dict(shards=8, checks=80, timeout=3400),
    stages=[
        dict(name="real-time", env={}, quick=dict(shards=4, checks=2, timeout=300), thorough=dict(shards=6, checks=80, timeout=3400)),
        dict(name="virtual-time", vclock=True, class_prefix="v:", env={"VERIF_C20_MODE": "virtual"},
             quick=dict(shards=6, checks=30000, timeout=300), thorough=dict(shards=10, checks=8000000, timeout=3400)),
    ],
    replay_repeat=1,
    rule="two stages. (1) REAL TIME: one case = 200 independent timelines run concurrently, each on its own "
         "channel with the read-idle and/or write-idle handler (idle time 1 s), 0-6 stimuli (inbound messages / outbound writes, bursts) "
         "at generated offsets up to 4.4 s of which a third sit 20-80 ms before or after an expected expiry, optionally an inactive at a "
         "generated offset or within +-30 ms of an expected expiry, an event handler that panics on, or closes the channel from inside, "
         "the k-th idle event. Oracle on monotonic timestamps taken by the harness: no idle event earlier than idle time after any stimulus "
         "of its direction (or activation) that completed >= 400 ms before the event was observed; no silence longer than 2*idle + 400 ms "
         "on an active channel without an event; after the inactive event passed at most one event per handler and none later than "
         "400 ms; a panicking event handler reaches the exception handlers and later periods are still timed; the process survives. A hit "
         "is reported only if it reproduces on an immediate second run of that timeline. Non-trivial (per case) = some timeline had a "
         "stimulus within 100 ms of an expiry, an inactive within 30 ms of one, a panicking or closing event handler. "
         "(2) VIRTUAL TIME (build-time instrumentation, no hook in /repo: harness/cmd/vclockgen copies the tree and redirects time.Now/Since/Until/AfterFunc/Timer of the root package to a switchable clock; skipped with a note when the tree uses a clock API it cannot redirect): one case = 1-4 timelines executed by "
         "one goroutine on a virtual clock: idle time 1/1.5/3 s, 0-14 steps out of {advance by 1..2*idle ms, advance to the next timer "
         "expiry -50/-1/0/+1/+50 ms, run one fired-but-not-yet-run timer callback (callbacks are delayed arbitrarily unless the timeline "
         "is 'prompt'), inbound message, outbound write, inactive whose downstream handler takes 0 / idle-1 / idle+300 / 2*idle+200 ms, "
         "stimuli after inactive}, event handler that panics on / closes from the k-th event, exception handler that panics once; then all "
         "callbacks in flight complete and three more idle periods pass. Exact oracle, no slack: an idle event at virtual time T needs "
         "T - (last stimulus of its direction, activation) >= idle; after the inactive event reached the handler behind the idle handlers "
         "only a callback whose timer had fired before that moment may deliver an event (at most one per handler) and after three idle "
         "periods no timer is armed; an active channel left alone for 3 idle periods (prompt callbacks) delivers an event, and in prompt "
         "timelines no silence exceeds 2*idle; an event-handler panic reaches the exception handlers and no panic escapes the callback. "
         "Non-trivial = a delayed callback ran after a later stimulus, an inactive with a callback in flight, a slow downstream inactive "
         "handler, a stimulus after inactive, a panicking or closing event handler.",
    required=["handlers:read", "handlers:write", "handlers:both", "idle-events-observed", "inactive", "inactive-near-expiry",
              "stimulus-near-expiry", "event-handler-panicked", "closed-from-event-handler", "slow-downstream-inactive", "write-after-inactive",
              "v:handlers:read", "v:handlers:write", "v:handlers:both", "v:idle-events-observed", "v:callback-ran-after-later-stimulus",
              "v:inactive-with-callback-in-flight", "v:advanced-to-exact-expiry", "v:stimulus-after-inactive", "v:slow-downstream-inactive",
              "v:event-handler-panicked", "v:double-fault", "v:closed-from-event-handler", "v:prompt-callbacks", "v:delayed-callbacks", "v:write-refused-behind-handler", "v:write-slow-behind-handler"],
    assumptions=["real-time stage: a slack of 400 ms between the handler's decision and the harness timestamp (measured lateness in the design probe: <= 2.2 ms for 600 concurrent timelines); a false alarm needs a 400 ms stall of one goroutine twice in a row",
                 "virtual-time stage: the idle handlers read the clock only through time.Now/Since/Until/AfterFunc (a tree that uses time.NewTimer/After/Tick/NewTicker/Sleep for idle timing is only seen by the real-time stage); timelines are executed by one goroutine, so the timer callback and the handler methods never overlap inside one method (the real-time stage and C12 sample that)",
                 "exception handlers do not panic (except where the timeline says so)"],
)
