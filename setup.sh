#!/bin/sh
# setup_cmd: build the harness test binaries offline from files on disk.
set -e
cd "$(dirname "$0")"
exec ./check build
