// unionhash prints the number of distinct 64-bit values in the given files
// (little-endian uint64 arrays written by the per-shard collectors).
package main

import (
	"encoding/binary"
	"fmt"
	"os"
	"sort"
)

func main() {
	var all []uint64
	for _, path := range os.Args[1:] {
		data, err := os.ReadFile(path)
		if err != nil {
			continue
		}
		for i := 0; i+8 <= len(data); i += 8 {
			all = append(all, binary.LittleEndian.Uint64(data[i:]))
		}
	}
	sort.Slice(all, func(i, j int) bool { return all[i] < all[j] })
	n := 0
	for i, v := range all {
		if i == 0 || v != all[i-1] {
			n++
		}
	}
	fmt.Println(n)
}
