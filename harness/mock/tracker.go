package mock

import (
	"sync"
	"time"
)

// Tracker counts goroutines that are running framework code (as opposed to
// parked inside a harness mock or finished). When the count is zero and nothing
// is pending, the state of a real-goroutine scenario can no longer change.
type Tracker struct {
	mu   sync.Mutex
	cond *sync.Cond
	busy int
}

func NewTracker() *Tracker {
	t := &Tracker{}
	t.cond = sync.NewCond(&t.mu)
	return t
}

func (t *Tracker) Begin() {
	t.mu.Lock()
	t.busy++
	t.mu.Unlock()
}

func (t *Tracker) End() {
	t.mu.Lock()
	t.busy--
	t.cond.Broadcast()
	t.mu.Unlock()
}

// Go runs fn on a tracked goroutine.
func (t *Tracker) Go(fn func()) {
	t.Begin()
	go func() {
		defer t.End()
		fn()
	}()
}

// Busy returns the current count.
func (t *Tracker) Busy() int {
	t.mu.Lock()
	defer t.mu.Unlock()
	return t.busy
}

// WaitIdle waits until no tracked goroutine is running; false on timeout.
func (t *Tracker) WaitIdle(d time.Duration) bool {
	deadline := time.Now().Add(d)
	t.mu.Lock()
	defer t.mu.Unlock()
	for t.busy > 0 {
		if time.Now().After(deadline) {
			return false
		}
		// cond.Wait has no timeout: poll with a short sleep outside the lock
		t.mu.Unlock()
		time.Sleep(20 * time.Microsecond)
		t.mu.Lock()
	}
	return true
}
