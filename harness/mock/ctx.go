// Package mock contains the harness-side doubles: recording handler contexts,
// the mock transport, executors and acceptors.
package mock

import (
	netty "github.com/go-netty/go-netty"
)

// Ctx is a recording handler context for codec-layer tests: it implements
// InboundContext and OutboundContext and hands every forwarded message to a
// callback (the "next handler").
type Ctx struct {
	OnRead  func(m netty.Message)
	OnWrite func(m netty.Message)
	Ch      netty.Channel
	Closed  []error
}

func (c *Ctx) Channel() netty.Channel         { return c.Ch }
func (c *Ctx) Handler() netty.Handler         { return nil }
func (c *Ctx) Write(m netty.Message)          { c.HandleWrite(m) }
func (c *Ctx) Trigger(e netty.Event)          {}
func (c *Ctx) Close(err error)                { c.Closed = append(c.Closed, err) }
func (c *Ctx) Attachment() netty.Attachment   { return nil }
func (c *Ctx) SetAttachment(netty.Attachment) {}
func (c *Ctx) HandleRead(m netty.Message) {
	if c.OnRead != nil {
		c.OnRead(m)
	}
}
func (c *Ctx) HandleWrite(m netty.Message) {
	if c.OnWrite != nil {
		c.OnWrite(m)
	}
}

// Catch runs fn and returns the recovered panic value (nil if none).
func Catch(fn func()) (p interface{}) {
	defer func() { p = recover() }()
	fn()
	return nil
}
