package mock

import (
	"fmt"
	"sync"
	"time"
)

// Clock is a virtual clock for the idle handlers (it satisfies the VerifClock interface of the clock-redirected
// build of go-netty, see cmd/vclockgen). Time only moves when the
// harness calls Advance; a timer that comes due is "fired": its callback becomes pending and is run
// when the harness decides (immediately in prompt mode), which models the goroutine that
// time.AfterFunc starts at the due time and that runs some time later.
type Clock struct {
	mu      sync.Mutex
	now     time.Duration
	timers  []*VTimer
	pending []*PendingCall
	Prompt  bool // run callbacks at the instant their timer comes due
	// OnCallbackPanic is called when a callback lets a panic escape (the real timer goroutine would have crashed the process).
	OnCallbackPanic func(v interface{})
	Fired           int // timers that came due
	seq             int
	current         *PendingCall
}

// VTimer is a timer of the virtual clock.
type VTimer struct {
	c      *Clock
	f      func()
	due    time.Duration
	active bool
	id     int
}

// PendingCall is a fired timer whose callback has not run yet.
type PendingCall struct {
	T       *VTimer
	FiredAt time.Duration
	Ord     int // 1-based position in the order of firing
}

var clockBase = time.Unix(1_700_000_000, 0)

func NewClock() *Clock { return &Clock{} }

func (c *Clock) Now() time.Time {
	c.mu.Lock()
	defer c.mu.Unlock()
	return clockBase.Add(c.now)
}

// Sleep (the Close poll of a queued channel) is not part of a virtual timeline: it sleeps for real.
func (c *Clock) Sleep(d time.Duration) { time.Sleep(d) }

// Elapsed is the virtual time since the clock was created.
func (c *Clock) Elapsed() time.Duration {
	c.mu.Lock()
	defer c.mu.Unlock()
	return c.now
}

// AfterFunc arms a new timer and returns its reset and stop operations.
func (c *Clock) AfterFunc(d time.Duration, f func()) (reset func(time.Duration) bool, stop func() bool) {
	c.mu.Lock()
	defer c.mu.Unlock()
	c.seq++
	t := &VTimer{c: c, f: f, due: c.now + d, active: true, id: c.seq}
	c.timers = append(c.timers, t)
	return t.Reset, t.Stop
}

func (t *VTimer) Reset(d time.Duration) bool {
	t.c.mu.Lock()
	defer t.c.mu.Unlock()
	was := t.active
	t.active = true
	t.due = t.c.now + d
	return was
}

func (t *VTimer) Stop() bool {
	t.c.mu.Lock()
	defer t.c.mu.Unlock()
	was := t.active
	t.active = false
	return was
}

// ActiveTimers is the number of armed timers.
func (c *Clock) ActiveTimers() int {
	c.mu.Lock()
	defer c.mu.Unlock()
	n := 0
	for _, t := range c.timers {
		if t.active {
			n++
		}
	}
	return n
}

// NextDue returns the earliest due time of an armed timer.
func (c *Clock) NextDue() (time.Duration, bool) {
	c.mu.Lock()
	defer c.mu.Unlock()
	return c.nextDueLocked()
}

func (c *Clock) nextDueLocked() (time.Duration, bool) {
	var best *VTimer
	for _, t := range c.timers {
		if t.active && (best == nil || t.due < best.due || (t.due == best.due && t.id < best.id)) {
			best = t
		}
	}
	if best == nil {
		return 0, false
	}
	return best.due, true
}

// Pending is the number of fired callbacks that have not run yet.
func (c *Clock) Pending() int {
	c.mu.Lock()
	defer c.mu.Unlock()
	return len(c.pending)
}

// Advance moves the clock forward by d. Timers coming due fire in due order, each at its own due time.
func (c *Clock) Advance(d time.Duration) {
	c.mu.Lock()
	target := c.now + d
	for steps := 0; ; steps++ {
		if steps > 100000 {
			c.mu.Unlock()
			panic(fmt.Sprintf("mock.Clock: more than 100000 timer firings while advancing to %v", target))
		}
		var best *VTimer
		for _, t := range c.timers {
			if t.active && t.due <= target && (best == nil || t.due < best.due || (t.due == best.due && t.id < best.id)) {
				best = t
			}
		}
		if best == nil {
			break
		}
		if best.due > c.now {
			c.now = best.due
		}
		best.active = false
		c.Fired++
		call := &PendingCall{T: best, FiredAt: c.now, Ord: c.Fired}
		if c.Prompt {
			c.mu.Unlock()
			c.call(call)
			c.mu.Lock()
			if c.now > target { // a callback advanced the clock itself
				target = c.now
			}
			continue
		}
		c.pending = append(c.pending, call)
	}
	if target > c.now {
		c.now = target
	}
	c.mu.Unlock()
}

// RunPending runs the i-th (mod the number of) pending callback; it reports false when none is pending.
func (c *Clock) RunPending(i int) (*PendingCall, bool) {
	c.mu.Lock()
	if len(c.pending) == 0 {
		c.mu.Unlock()
		return nil, false
	}
	if i < 0 {
		i = -i
	}
	i %= len(c.pending)
	call := c.pending[i]
	c.pending = append(c.pending[:i:i], c.pending[i+1:]...)
	c.mu.Unlock()
	c.call(call)
	return call, true
}

// Current is the callback being run by the harness goroutine (nil outside a callback).
func (c *Clock) Current() *PendingCall {
	c.mu.Lock()
	defer c.mu.Unlock()
	return c.current
}

func (c *Clock) call(p *PendingCall) {
	c.mu.Lock()
	prev := c.current
	c.current = p
	c.mu.Unlock()
	defer func() {
		c.mu.Lock()
		c.current = prev
		c.mu.Unlock()
		if v := recover(); v != nil && c.OnCallbackPanic != nil {
			c.OnCallbackPanic(v)
		}
	}()
	p.T.f()
}
