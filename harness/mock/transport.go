package mock

import (
	"fmt"
	"io"
	"net"
	"runtime"
	"sync"
	"time"

	"github.com/go-netty/go-netty/transport"

	"verif/harness/sched"
)

// NetErr is a net.Error with a configurable Timeout().
type NetErr struct {
	Msg string
	TO  bool
}

func (e *NetErr) Error() string   { return e.Msg }
func (e *NetErr) Timeout() bool   { return e.TO }
func (e *NetErr) Temporary() bool { return e.TO }

// ErrClosedConn is what the mock returns for operations on a closed transport
// (a non-timeout net.Error, like "use of closed network connection").
var ErrClosedConn = &NetErr{Msg: "verif: use of closed mock connection"}

// TEvent is one call made on the mock transport.
type TEvent struct {
	Seq      int
	Task     int    // task id (-1 outside the scheduler)
	Kind     string // write | writev | flush | close | read | deadline
	Start    int    // offset in the accepted stream before the call
	End      int    // offset after the call
	Segs     int    // writev: number of segments
	Rejected bool   // the transport was closed or a fault was injected
	Err      string
	EndSeq   int // sequence number at return
}

// Fault makes the K-th (1-based) call of Op fail with Err.
type Fault struct {
	Op  string `json:"op"`  // write | writev | wr (a write of either kind) | flush | read | close (Close reports an error, the transport is closed all the same) | deadline (SetWriteDeadline fails)
	K   int    `json:"k"`   // 1-based call index of that op
	Err string `json:"err"` // plain | timeout | neterr | eof
	// Partial: the failing Write/Writev reports n = 1 together with the error (a write that failed after partial progress)
	Partial bool `json:"partial,omitempty"`
}

// MakeErr builds the error object for a fault kind.
func MakeErr(kind string) error {
	switch kind {
	case "timeout":
		return &NetErr{Msg: "verif: injected timeout", TO: true}
	case "neterr":
		return &NetErr{Msg: "verif: injected net error"}
	case "eof":
		return io.EOF
	}
	return fmt.Errorf("verif: injected failure")
}

// Transport is a recording, optionally buffering, non-thread-safe mock
// transport. With a scheduler every call is a yield point; without one it uses
// a mutex and condition variable and can be driven by real goroutines.
type Transport struct {
	S        *sched.Sched
	Buffered bool // Write/Writev go to a pending buffer that Flush moves to the wire

	mu       sync.Mutex
	cond     *sync.Cond
	accepted []byte // every byte accepted, in order (flushed prefix + pending)
	flushed  int    // accepted[:flushed] has reached the wire
	Events   []TEvent
	closed   bool
	closeN   int
	inbound  [][]byte
	peerEOF  bool
	readErr  error
	faults   []Fault
	FaultErr map[int]error // index into faults -> error object actually returned
	counts   map[string]int
	seqFn    func() int
	localSeq int
	// AfterCloseWrites counts bytes offered after Close (all rejected).
	AfterCloseWrites int
	// ReadWaiting is true while a Read is parked waiting for data.
	readWaiting bool
	// SlowWrites (real-goroutine mode): Write/Writev yield the processor once before they take effect.
	SlowWrites bool
	// SplitWrites makes a buffered Write/Writev copy in two halves with a yield in between.
	SplitWrites bool
	// OnAccept is called (under no lock) with every accepted chunk at the moment of acceptance.
	OnAccept func(b []byte)
	// OnClose is called (under no lock) when Close takes effect.
	OnClose func()
	// Tracker, when set (real-goroutine mode), is told when the reading goroutine parks and when it is woken.
	Tracker     *Tracker
	parkCounted bool
	lastPartial bool
	// write-side calls in progress (Write, Writev, Flush): a transport is not safe for concurrent use, the channel
	// has to serialise them. overlap describes the first time two of them were in progress at once.
	writeShut bool // CloseWrite was called on the raw handle
	wDeadline time.Time
	// StallWrites: the peer has stopped reading and the send buffer is full: Write/Writev park until the transport is closed
	StallWrites bool
	stallParked int // parked writers the Tracker counts as not running
	stallGen    int
	wActive     int
	wKind       string
	overlap     string
}

// stallLocked parks a writer while StallWrites is set (real-goroutine mode only); Close wakes it.
func (t *Transport) stallLocked() {
	counted, gen := false, t.stallGen
	for t.StallWrites && !t.closed && t.S == nil {
		if t.Tracker != nil && !counted {
			counted, gen = true, t.stallGen
			t.stallParked++
			t.Tracker.End()
		}
		t.cond.Wait() // the condition variable is shared with the reader: wake-ups may be for somebody else
		if gen != t.stallGen {
			counted = false // wakeStalledLocked has called Tracker.Begin on our behalf
		}
	}
	if counted {
		// released by a change of the flags without wakeStalledLocked: cannot happen, but keep the count right
		t.stallParked--
		t.Tracker.Begin()
	}
}

// SetStall switches the stalled-peer behaviour on or off (off wakes the parked writers).
func (t *Transport) SetStall(on bool) {
	t.mu.Lock()
	t.StallWrites = on
	if !on {
		t.wakeStalledLocked()
	}
	t.mu.Unlock()
}

func (t *Transport) wakeStalledLocked() {
	t.stallGen++
	if t.Tracker != nil {
		for ; t.stallParked > 0; t.stallParked-- {
			t.Tracker.Begin()
		}
	}
	t.cond.Broadcast()
}

func (t *Transport) enterW(kind string) {
	t.mu.Lock()
	if t.wActive > 0 && t.overlap == "" {
		t.overlap = fmt.Sprintf("%s was called while a %s call by another goroutine was still in progress", kind, t.wKind)
	}
	t.wActive++
	t.wKind = kind
	t.mu.Unlock()
}

func (t *Transport) exitW() {
	t.mu.Lock()
	t.wActive--
	t.mu.Unlock()
}

// WriteOverlap reports the first overlap of two write-side calls ("" = they were always serialised).
func (t *Transport) WriteOverlap() string {
	t.mu.Lock()
	defer t.mu.Unlock()
	return t.overlap
}

// NewTransport creates a mock transport.
func NewTransport(s *sched.Sched, buffered bool, faults []Fault) *Transport {
	t := &Transport{S: s, Buffered: buffered, faults: faults, counts: map[string]int{}, FaultErr: map[int]error{}}
	t.cond = sync.NewCond(&t.mu)
	return t
}

func (t *Transport) seq() int {
	if t.S != nil {
		return t.S.Seq()
	}
	t.localSeq++
	return t.localSeq
}

func (t *Transport) taskID() int {
	if t.S != nil {
		if c := t.S.Current(); c != nil {
			return c.ID
		}
	}
	return -1
}

func (t *Transport) yield(label string, pred func() bool) {
	if t.S != nil {
		t.S.Yield(label, pred)
	}
}

// fault returns the injected error for this call of op, if any.
func (t *Transport) fault(op string) error {
	t.counts[op]++
	if op == "write" || op == "writev" {
		t.counts["wr"]++ // "wr": the K-th transport write of either kind (how the sender batches is its own business)
	}
	t.lastPartial = false
	for i, f := range t.faults {
		if (f.Op == op && f.K == t.counts[op]) || (f.Op == "wr" && (op == "write" || op == "writev") && f.K == t.counts["wr"]) {
			e := MakeErr(f.Err)
			t.FaultErr[i] = e
			t.lastPartial = f.Partial
			return e
		}
	}
	return nil
}

func (t *Transport) record(ev TEvent) int {
	ev.Seq = t.seq()
	ev.Task = t.taskID()
	t.Events = append(t.Events, ev)
	return len(t.Events) - 1
}

func (t *Transport) accept(b []byte) {
	t.accepted = append(t.accepted, b...)
	if !t.Buffered {
		t.flushed = len(t.accepted)
	}
}

func (t *Transport) Write(p []byte) (int, error) {
	t.enterW("Write")
	defer t.exitW()
	if t.SlowWrites && t.S == nil {
		runtime.Gosched()
	}
	t.yield("t.write", nil)
	t.mu.Lock()
	idx := t.record(TEvent{Kind: "write", Start: len(t.accepted)})
	t.stallLocked()
	if t.closed {
		t.AfterCloseWrites += len(p)
		t.Events[idx].Rejected, t.Events[idx].Err, t.Events[idx].End = true, ErrClosedConn.Error(), len(t.accepted)
		t.Events[idx].EndSeq = t.seq()
		t.mu.Unlock()
		return 0, ErrClosedConn
	}
	if err := t.deadlineErrLocked(); err != nil {
		t.Events[idx].Rejected, t.Events[idx].Err, t.Events[idx].End = true, err.Error(), len(t.accepted)
		t.Events[idx].EndSeq = t.seq()
		t.mu.Unlock()
		return 0, err
	}
	if err := t.fault("write"); err != nil {
		t.Events[idx].Rejected, t.Events[idx].Err, t.Events[idx].End = true, err.Error(), len(t.accepted)
		t.Events[idx].EndSeq = t.seq()
		n := 0
		if t.lastPartial && len(p) > 0 {
			n = 1
		}
		t.mu.Unlock()
		return n, err
	}
	if t.SplitWrites && len(p) > 1 {
		h := len(p) / 2
		t.accept(p[:h])
		t.mu.Unlock()
		if t.OnAccept != nil {
			t.OnAccept(p[:h])
		}
		t.yield("t.write.mid", nil)
		t.mu.Lock()
		t.accept(p[h:])
		t.mu.Unlock()
		if t.OnAccept != nil {
			t.OnAccept(p[h:])
		}
		t.mu.Lock()
	} else {
		t.accept(p)
		if t.OnAccept != nil {
			t.mu.Unlock()
			t.OnAccept(p)
			t.mu.Lock()
		}
	}
	t.Events[idx].End = len(t.accepted)
	t.Events[idx].EndSeq = t.seq()
	t.mu.Unlock()
	return len(p), nil
}

func (t *Transport) Writev(buffs transport.Buffers) (int64, error) {
	t.enterW("Writev")
	defer t.exitW()
	t.yield("t.writev", nil)
	t.mu.Lock()
	idx := t.record(TEvent{Kind: "writev", Start: len(t.accepted), Segs: len(buffs)})
	total := 0
	for _, b := range buffs {
		total += len(b)
	}
	t.stallLocked()
	if t.closed {
		t.AfterCloseWrites += total
		t.Events[idx].Rejected, t.Events[idx].Err, t.Events[idx].End = true, ErrClosedConn.Error(), len(t.accepted)
		t.Events[idx].EndSeq = t.seq()
		t.mu.Unlock()
		return 0, ErrClosedConn
	}
	if err := t.deadlineErrLocked(); err != nil {
		t.Events[idx].Rejected, t.Events[idx].Err, t.Events[idx].End = true, err.Error(), len(t.accepted)
		t.Events[idx].EndSeq = t.seq()
		t.mu.Unlock()
		return 0, err
	}
	if err := t.fault("writev"); err != nil {
		t.Events[idx].Rejected, t.Events[idx].Err, t.Events[idx].End = true, err.Error(), len(t.accepted)
		t.Events[idx].EndSeq = t.seq()
		n := int64(0)
		if t.lastPartial && total > 0 {
			n = 1
		}
		t.mu.Unlock()
		return n, err
	}
	for i, b := range buffs {
		t.accept(b)
		if t.OnAccept != nil {
			t.mu.Unlock()
			t.OnAccept(b)
			t.mu.Lock()
		}
		// like net.Buffers.WriteTo, consume the caller's vector
		buffs[i] = nil
		if t.SplitWrites && i+1 < len(buffs) {
			t.mu.Unlock()
			t.yield("t.writev.mid", nil)
			t.mu.Lock()
		}
	}
	t.Events[idx].End = len(t.accepted)
	t.Events[idx].EndSeq = t.seq()
	t.mu.Unlock()
	return int64(total), nil
}

func (t *Transport) Flush() error {
	t.enterW("Flush")
	defer t.exitW()
	t.yield("t.flush", nil)
	t.mu.Lock()
	defer t.mu.Unlock()
	idx := t.record(TEvent{Kind: "flush", Start: t.flushed})
	defer func() { t.Events[idx].EndSeq = t.seq() }()
	if t.closed {
		t.Events[idx].Rejected, t.Events[idx].Err, t.Events[idx].End = true, ErrClosedConn.Error(), t.flushed
		return ErrClosedConn
	}
	if err := t.deadlineErrLocked(); err != nil && len(t.accepted) > t.flushed {
		t.Events[idx].Rejected, t.Events[idx].Err, t.Events[idx].End = true, err.Error(), t.flushed
		return err
	}
	if err := t.fault("flush"); err != nil {
		t.Events[idx].Rejected, t.Events[idx].Err, t.Events[idx].End = true, err.Error(), t.flushed
		return err
	}
	t.flushed = len(t.accepted)
	t.Events[idx].End = t.flushed
	return nil
}

func (t *Transport) Close() error {
	t.yield("t.close", nil)
	t.mu.Lock()
	defer t.mu.Unlock()
	idx := t.record(TEvent{Kind: "close", Start: t.flushed, End: len(t.accepted)})
	t.Events[idx].EndSeq = t.Events[idx].Seq
	t.closeN++
	if t.closed {
		t.Events[idx].Rejected = true
		return ErrClosedConn
	}
	t.closed = true
	t.wakeReaderLocked()
	t.wakeStalledLocked()
	var closeErr error
	if err := t.fault("close"); err != nil {
		// e.g. a TLS connection that could not send its close_notify, a final flush that failed: closed all the same
		closeErr = err
	}
	defer func() { _ = closeErr }()
	if t.OnClose != nil {
		t.mu.Unlock()
		t.OnClose()
		t.mu.Lock()
	}
	return closeErr
}

func (t *Transport) readable() bool {
	t.mu.Lock()
	defer t.mu.Unlock()
	return t.readableLocked()
}

func (t *Transport) readableLocked() bool {
	return len(t.inbound) > 0 || t.closed || t.peerEOF || t.readErr != nil
}

func (t *Transport) Read(p []byte) (int, error) {
	if t.S != nil && t.S.Current() != nil {
		t.S.Yield("t.read", t.readable)
		t.mu.Lock()
	} else {
		t.mu.Lock()
		for !t.readableLocked() {
			t.readWaiting = true
			if t.Tracker != nil && !t.parkCounted {
				t.parkCounted = true
				t.Tracker.End()
			}
			t.cond.Broadcast()
			t.cond.Wait()
		}
		t.readWaiting = false
	}
	defer t.mu.Unlock()
	idx := t.record(TEvent{Kind: "read"})
	defer func() { t.Events[idx].EndSeq = t.seq() }()
	if len(p) == 0 {
		return 0, nil
	}
	if t.closed {
		t.Events[idx].Rejected, t.Events[idx].Err = true, ErrClosedConn.Error()
		return 0, ErrClosedConn
	}
	if len(t.inbound) > 0 {
		if err := t.fault("read"); err != nil {
			t.Events[idx].Rejected, t.Events[idx].Err = true, err.Error()
			return 0, err
		}
		c := t.inbound[0]
		n := copy(p, c)
		if n == len(c) {
			t.inbound = t.inbound[1:]
		} else {
			t.inbound[0] = c[n:]
		}
		t.Events[idx].End = n
		return n, nil
	}
	if t.readErr != nil {
		t.Events[idx].Rejected, t.Events[idx].Err = true, t.readErr.Error()
		return 0, t.readErr
	}
	t.Events[idx].Rejected, t.Events[idx].Err = true, "EOF"
	return 0, io.EOF
}

// wakeReaderLocked accounts for a parked reader that is about to continue.
func (t *Transport) wakeReaderLocked() {
	if t.Tracker != nil && t.parkCounted && t.readableLocked() {
		t.parkCounted = false
		t.Tracker.Begin()
	}
}

// Feed makes chunks available to Read (each chunk is returned by at most one Read, possibly split).
func (t *Transport) Feed(chunks ...[]byte) {
	t.mu.Lock()
	for _, c := range chunks {
		if len(c) > 0 {
			t.inbound = append(t.inbound, append([]byte{}, c...))
		}
	}
	t.wakeReaderLocked()
	t.cond.Broadcast()
	t.mu.Unlock()
}

// PeerClose makes Read return io.EOF once the fed data is consumed.
func (t *Transport) PeerClose() {
	t.mu.Lock()
	t.peerEOF = true
	t.wakeReaderLocked()
	t.cond.Broadcast()
	t.mu.Unlock()
}

// FailRead makes Read return err once the fed data is consumed.
func (t *Transport) FailRead(err error) {
	t.mu.Lock()
	t.readErr = err
	t.wakeReaderLocked()
	t.cond.Broadcast()
	t.mu.Unlock()
}

// WaitReadParked blocks (real-goroutine mode) until a Read is waiting for data
// with nothing left to deliver, or the transport is closed, or the timeout expires.
func (t *Transport) WaitReadParked(timeout time.Duration) bool {
	deadline := time.Now().Add(timeout)
	t.mu.Lock()
	defer t.mu.Unlock()
	for !(t.closed || (t.readWaiting && !t.readableLocked())) {
		if time.Now().After(deadline) {
			return false
		}
		t.mu.Unlock()
		time.Sleep(50 * time.Microsecond)
		t.mu.Lock()
	}
	return true
}

// Snapshot accessors ----------------------------------------------------------

// Accepted returns a copy of all accepted bytes and how many of them were flushed.
func (t *Transport) Accepted() ([]byte, int) {
	t.mu.Lock()
	defer t.mu.Unlock()
	return append([]byte{}, t.accepted...), t.flushed
}

// AcceptedLen returns len(accepted), flushed without copying.
func (t *Transport) AcceptedLen() (int, int) {
	t.mu.Lock()
	defer t.mu.Unlock()
	return len(t.accepted), t.flushed
}

// IsClosed reports whether Close was called.
func (t *Transport) IsClosed() bool {
	t.mu.Lock()
	defer t.mu.Unlock()
	return t.closed
}

// CloseCount is the number of Close calls.
func (t *Transport) CloseCount() int {
	t.mu.Lock()
	defer t.mu.Unlock()
	return t.closeN
}

// InboundLeft is the number of fed bytes not yet read.
func (t *Transport) InboundLeft() int {
	t.mu.Lock()
	defer t.mu.Unlock()
	n := 0
	for _, c := range t.inbound {
		n += len(c)
	}
	return n
}

// EventsCopy returns a copy of the event log.
func (t *Transport) EventsCopy() []TEvent {
	t.mu.Lock()
	defer t.mu.Unlock()
	return append([]TEvent(nil), t.Events...)
}

// net.Conn boilerplate --------------------------------------------------------

type addr string

func (a addr) Network() string { return "mock" }
func (a addr) String() string  { return string(a) }

func (t *Transport) LocalAddr() net.Addr  { return addr("mock-local") }
func (t *Transport) RemoteAddr() net.Addr { return addr("mock-remote") }
func (t *Transport) SetDeadline(d time.Time) error {
	// read and write deadline; only the write side is emulated
	return t.SetWriteDeadline(d)
}

// NowFunc is the clock write deadlines are compared with (the no-sleep stage adds the time Close has "slept").
var NowFunc = time.Now

func (t *Transport) SetReadDeadline(d time.Time) error { return nil }
func (t *Transport) SetWriteDeadline(d time.Time) error {
	t.mu.Lock()
	defer t.mu.Unlock()
	t.record(TEvent{Kind: "deadline"})
	if err := t.fault("deadline"); err != nil {
		return err // e.g. the connection was torn down by somebody else meanwhile
	}
	t.wDeadline = d
	return nil
}

// deadlineErrLocked: like a real connection, a write-side call made when the armed write deadline has passed fails at once.
func (t *Transport) deadlineErrLocked() error {
	if t.writeShut {
		return &NetErr{Msg: "verif: mock write on a connection whose write side was shut down (CloseWrite)"}
	}
	if !t.wDeadline.IsZero() && !NowFunc().Before(t.wDeadline) {
		return &NetErr{Msg: "verif: mock i/o timeout (write deadline passed)", TO: true}
	}
	return nil
}

// RawTransport returns a handle that offers CloseWrite like a TCP connection does (half close): after it the
// write side is shut, Write/Writev/Flush fail.
func (t *Transport) RawTransport() interface{} { return rawHandle{t} }

type rawHandle struct{ t *Transport }

func (h rawHandle) CloseWrite() error {
	h.t.mu.Lock()
	defer h.t.mu.Unlock()
	h.t.record(TEvent{Kind: "closewrite", Start: h.t.flushed, End: len(h.t.accepted)})
	h.t.writeShut = true
	return nil
}

var _ transport.Transport = (*Transport)(nil)
