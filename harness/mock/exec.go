package mock

import (
	"sync"

	netty "github.com/go-netty/go-netty"

	"verif/harness/sched"
)

// InlineExec runs the first action (the read loop) on its own goroutine and
// every later action (senders) synchronously in the caller: a legal executor
// that makes single-threaded properties deterministic.
type InlineExec struct {
	mu    sync.Mutex
	first bool
	WG    sync.WaitGroup
	// Defer makes later actions wait until RunDeferred is called (a stalled executor).
	Defer   bool
	pending []netty.Action
}

// Deferred is the number of actions waiting for RunDeferred.
func (e *InlineExec) Deferred() int {
	e.mu.Lock()
	defer e.mu.Unlock()
	return len(e.pending)
}

// RunDeferred runs the held actions (and those they submit) in the caller.
func (e *InlineExec) RunDeferred() {
	for {
		e.mu.Lock()
		if len(e.pending) == 0 {
			e.mu.Unlock()
			return
		}
		a := e.pending[0]
		e.pending = e.pending[1:]
		e.mu.Unlock()
		a()
	}
}

func (e *InlineExec) Exec(a netty.Action) {
	e.mu.Lock()
	isFirst := !e.first
	e.first = true
	e.mu.Unlock()
	if isFirst {
		e.WG.Add(1)
		go func() {
			defer e.WG.Done()
			a()
		}()
		return
	}
	if e.Defer {
		e.mu.Lock()
		e.pending = append(e.pending, a)
		e.mu.Unlock()
		return
	}
	a()
}

// SchedExec turns every action into a scheduler task. Actions submitted while
// SetUp is true start running at once (set-up phase) until their first yield.
type SchedExec struct {
	S     *sched.Sched
	SetUp bool
	Tasks []*sched.Task
	// Hold, when non-nil, is consulted when a new task is created; a held task
	// gets an enabledness predicate (stalled executor).
	OnTask func(t *sched.Task)
	mu     sync.Mutex
}

func (e *SchedExec) Exec(a netty.Action) {
	e.mu.Lock()
	defer e.mu.Unlock()
	name := "exec"
	t := e.S.Go(name, e.SetUp, func() { a() })
	e.Tasks = append(e.Tasks, t)
	if e.OnTask != nil {
		e.OnTask(t)
	}
}

// TaskList returns a copy of the tasks created so far.
func (e *SchedExec) TaskList() []*sched.Task {
	e.mu.Lock()
	defer e.mu.Unlock()
	return append([]*sched.Task(nil), e.Tasks...)
}
