package mock

import (
	"errors"
	"sync"

	"github.com/go-netty/go-netty/transport"
)

// ErrAcceptorClosed is what Accept returns after the acceptor was closed.
var ErrAcceptorClosed = errors.New("verif: mock acceptor closed")

// Acceptor is a mock transport.Acceptor: Accept parks until a transport is
// handed in or the acceptor is closed.
type Acceptor struct {
	F       *Factory
	URL     string
	mu      sync.Mutex
	cond    *sync.Cond
	queue   []transport.Transport
	closed  bool
	CloseN  int
	waiting bool
	counted bool
	Accepts int // Accept calls that returned a transport
	// Accepted lists the transports Accept has returned (each of them must be closed by somebody in the end).
	Accepted []transport.Transport
	// slow: transports whose Accept is "in flight": Accept has taken the connection (for tcp: the socket is accepted, its
	// options are being applied) but returns it only after ReleaseAccept - even if the acceptor was closed meanwhile.
	slow     map[transport.Transport]bool
	inFlight []chan struct{}
}

func (a *Acceptor) Accept() (transport.Transport, error) {
	a.mu.Lock()
	defer a.mu.Unlock()
	for len(a.queue) == 0 && !a.closed {
		a.waiting = true
		if a.F.Tracker != nil && !a.counted {
			a.counted = true
			a.F.Tracker.End()
		}
		a.cond.Wait()
	}
	a.waiting = false
	if len(a.queue) > 0 && !a.closed {
		t := a.queue[0]
		a.queue = a.queue[1:]
		if a.slow[t] {
			delete(a.slow, t)
			gate := make(chan struct{})
			a.inFlight = append(a.inFlight, gate)
			if a.F.Tracker != nil {
				a.F.Tracker.End()
			}
			a.mu.Unlock()
			<-gate // the releaser has called Tracker.Begin for us
			a.mu.Lock()
		}
		a.Accepts++
		a.Accepted = append(a.Accepted, t)
		return t, nil
	}
	return nil, ErrAcceptorClosed
}

// HandSlow is Hand for a connection whose Accept stays in flight until ReleaseAccept.
func (a *Acceptor) HandSlow(t transport.Transport) bool {
	a.mu.Lock()
	if a.slow == nil {
		a.slow = map[transport.Transport]bool{}
	}
	a.slow[t] = true
	a.mu.Unlock()
	return a.Hand(t)
}

// ReleaseAccept lets the oldest in-flight Accept return its connection; false if there is none.
func (a *Acceptor) ReleaseAccept() bool {
	a.mu.Lock()
	if len(a.inFlight) == 0 {
		a.mu.Unlock()
		return false
	}
	g := a.inFlight[0]
	a.inFlight = a.inFlight[1:]
	a.mu.Unlock()
	if a.F.Tracker != nil {
		a.F.Tracker.Begin()
	}
	close(g)
	return true
}

// AcceptedCopy returns the transports Accept has handed out so far.
func (a *Acceptor) AcceptedCopy() []transport.Transport {
	a.mu.Lock()
	defer a.mu.Unlock()
	return append([]transport.Transport(nil), a.Accepted...)
}

func (a *Acceptor) wakeLocked() {
	if a.F.Tracker != nil && a.counted && (len(a.queue) > 0 || a.closed) {
		a.counted = false
		a.F.Tracker.Begin()
	}
	a.cond.Broadcast()
}

func (a *Acceptor) Close() error {
	a.mu.Lock()
	defer a.mu.Unlock()
	a.CloseN++
	a.closed = true
	a.wakeLocked()
	return nil
}

// Hand makes an inbound connection available to Accept; false if the acceptor is closed.
func (a *Acceptor) Hand(t transport.Transport) bool {
	a.mu.Lock()
	defer a.mu.Unlock()
	if a.closed {
		return false
	}
	a.queue = append(a.queue, t)
	a.wakeLocked()
	return true
}

// State returns (closed, close count, an Accept is outstanding, queued but never accepted).
func (a *Acceptor) State() (bool, int, bool, int) {
	a.mu.Lock()
	defer a.mu.Unlock()
	return a.closed, a.CloseN, a.waiting, len(a.queue)
}

// Factory is a mock transport.Factory.
type Factory struct {
	Tracker   *Tracker
	mu        sync.Mutex
	Acceptors []*Acceptor
	Connected []*Transport
	NewT      func() *Transport
	// gates: a Listen for a gated URL parks (after "binding", before returning the acceptor) until OpenGate.
	// One entry per Gate call; a URL may be gated several times (address reused by a later listener).
	pending  map[string]int             // gates set and not yet reached by a Listen
	parked   map[string][]chan struct{} // Listen calls waiting
	failOnce map[string]int             // Listen calls that will fail
}

// Gate makes the next Listen for url park until OpenGate(url).
func (f *Factory) Gate(url string) {
	f.mu.Lock()
	defer f.mu.Unlock()
	if f.pending == nil {
		f.pending, f.parked = map[string]int{}, map[string][]chan struct{}{}
	}
	f.pending[url]++
}

// OpenGate lets every Listen parked for url continue and drops gates not reached yet; it reports whether there was any.
func (f *Factory) OpenGate(url string) bool {
	f.mu.Lock()
	waiting := f.parked[url]
	had := len(waiting) > 0 || f.pending[url] > 0
	delete(f.parked, url)
	delete(f.pending, url)
	f.mu.Unlock()
	for _, g := range waiting {
		if f.Tracker != nil {
			f.Tracker.Begin()
		}
		close(g)
	}
	return had
}

// GatedURLs lists the URLs that still have a gate (set or with a parked Listen).
func (f *Factory) GatedURLs() []string {
	f.mu.Lock()
	defer f.mu.Unlock()
	seen := map[string]bool{}
	var out []string
	for u, n := range f.pending {
		if n > 0 && !seen[u] {
			seen[u] = true
			out = append(out, u)
		}
	}
	for u, w := range f.parked {
		if len(w) > 0 && !seen[u] {
			seen[u] = true
			out = append(out, u)
		}
	}
	return out
}

func (f *Factory) Schemes() transport.Schemes { return transport.Schemes{"mock"} }

func (f *Factory) Connect(options *transport.Options) (transport.Transport, error) {
	t := f.NewT()
	f.mu.Lock()
	f.Connected = append(f.Connected, t)
	f.mu.Unlock()
	return t, nil
}

// FailNextListen makes the next Listen for url fail (bind: address already in use).
func (f *Factory) FailNextListen(url string) {
	f.mu.Lock()
	defer f.mu.Unlock()
	if f.failOnce == nil {
		f.failOnce = map[string]int{}
	}
	f.failOnce[url]++
}

func (f *Factory) Listen(options *transport.Options) (transport.Acceptor, error) {
	f.mu.Lock()
	if k := options.Address.Scheme + "://" + options.Address.Host; f.failOnce[k] > 0 {
		f.failOnce[k]--
		f.mu.Unlock()
		return nil, errors.New("verif: mock listen: address already in use")
	}
	f.mu.Unlock()
	a := &Acceptor{F: f, URL: options.Address.String()}
	a.cond = sync.NewCond(&a.mu)
	f.mu.Lock()
	f.Acceptors = append(f.Acceptors, a)
	key := options.Address.Scheme + "://" + options.Address.Host
	var g chan struct{}
	gated := f.pending[key] > 0
	if gated {
		f.pending[key]--
		g = make(chan struct{})
		f.parked[key] = append(f.parked[key], g)
	}
	f.mu.Unlock()
	if gated {
		// the socket is bound; returning it to the listener takes a while
		if f.Tracker != nil {
			f.Tracker.End()
		}
		<-g
	}
	return a, nil
}

// AcceptorFor returns the acceptors created for a URL (in creation order).
func (f *Factory) AcceptorsCopy() []*Acceptor {
	f.mu.Lock()
	defer f.mu.Unlock()
	return append([]*Acceptor(nil), f.Acceptors...)
}
