module verif/harness

go 1.23

require (
	github.com/go-netty/go-netty v0.0.0
	pgregory.net/rapid v1.3.0
)

replace github.com/go-netty/go-netty => /repo
