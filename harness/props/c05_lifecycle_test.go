package props

import (
	"context"
	"errors"
	"fmt"
	"io"
	"net"
	"runtime"
	"sync"
	"sync/atomic"
	"testing"
	"time"

	netty "github.com/go-netty/go-netty"
	"pgregory.net/rapid"

	"verif/harness/core"
	"verif/harness/mock"
	"verif/harness/sched"
)

// C05 — channel lifecycle: active once, sequential reads, inactive exactly once.

type C05Spec struct {
	SchedSetup    bool   `json:"sched_setup"`               // run ServeChannel/activation under the scheduler
	CloseInActive string `json:"close_in_active,omitempty"` // error kind, "" = no close
	CloseInRead   int    `json:"close_in_read,omitempty"`   // close from inside the k-th read delivery (0 = never)
	CloseInEvent  bool   `json:"close_in_event,omitempty"`  // close from inside HandleEvent
	// Idle: the shipped read-idle and write-idle handlers (one hour) sit between the probe and the recorders
	Idle bool `json:"idle,omitempty"`
	// Stress > 0: no scheduler; this many real goroutines call Close at the same moment, Rounds times
	Stress int `json:"stress,omitempty"`
	Rounds int `json:"rounds,omitempty"`
	// ConnectStress > 0: no scheduler; this many real goroutines call Bootstrap.Connect at the same moment, Rounds times
	ConnectStress int `json:"connect_stress,omitempty"`
}

type c05Probe struct {
	r           *e1Run
	spec        C05Spec
	activeBegin []int
	activeEnd   []int
	readBegin   []int
	readEnd     []int
	inFlight    int
	maxInFlight int
	events      int
}

func (p *c05Probe) handlerClose(who string, kind string, id int) {
	r := p.r
	call := r.newCall(-1, 0, E1Op{Op: "close", Err: kind})
	call.Who = who
	call.TaskPtr = r.s.Current()
	r.mu.Lock()
	r.closeCalls = append(r.closeCalls, call)
	r.mu.Unlock()
	call.Err = closeErrOf(kind, 500+id)
	call.Begin = r.s.Seq()
	r.ch.Close(call.Err)
	call.ActiveAfter = r.ch.IsActive()
	call.CtxErrAfter = r.ch.Context().Err() != nil
	call.End = r.s.Seq()
}

func (p *c05Probe) HandleActive(ctx netty.ActiveContext) {
	p.activeBegin = append(p.activeBegin, p.r.s.Seq())
	if !p.spec.SchedSetup {
		// unscheduled set-up phase: nobody would resume a parked task
		ctx.HandleActive()
		p.activeEnd = append(p.activeEnd, p.r.s.Seq())
		return
	}
	p.r.s.Yield("probe.active", nil)
	if p.spec.CloseInActive != "" {
		p.handlerClose("HandleActive", p.spec.CloseInActive, 1)
		p.r.s.Yield("probe.active.afterclose", nil)
	}
	ctx.HandleActive()
	p.activeEnd = append(p.activeEnd, p.r.s.Seq())
}

func (p *c05Probe) HandleRead(ctx netty.InboundContext, m netty.Message) {
	p.inFlight++
	if p.inFlight > p.maxInFlight {
		p.maxInFlight = p.inFlight
	}
	p.readBegin = append(p.readBegin, p.r.s.Seq())
	p.r.s.Yield("probe.read", nil)
	if p.spec.CloseInRead > 0 && len(p.readBegin) == p.spec.CloseInRead {
		p.handlerClose("HandleRead", "sentinel", 2)
	}
	defer func() {
		p.inFlight--
		p.readEnd = append(p.readEnd, p.r.s.Seq())
	}()
	ctx.HandleRead(m)
}

func (p *c05Probe) HandleEvent(ctx netty.EventContext, ev netty.Event) {
	p.events++
	p.r.s.Yield("probe.event", nil)
	if p.spec.CloseInEvent {
		p.handlerClose("HandleEvent", "wrapped", 3)
	}
	ctx.HandleEvent(ev)
}

func genC05(t *rapid.T) E1Case {
	var c E1Case
	genKind(t, &c, []string{"sync", "qblock", "qnonblock"})
	if rapid.IntRange(0, 39).Draw(t, "stress") == 17 { // a mid-range value: rapid favours the ends of a range
		// windows without any yield point (inside the closer election) are only reachable with real parallelism
		c.C05 = &C05Spec{Stress: rapid.IntRange(2, 8).Draw(t, "closers"), Rounds: 150}
		return c
	}
	// (the thorough tier generates some hundred times more cases: the stress is made that much rarer there, it costs
	// a few hundred milliseconds of all cores)
	// (rapid prefers small magnitudes: a target in the upper half of the range, or the class comes ten times too often)
	connectOdds, connectAt := 199, 113
	if core.Thorough() {
		connectOdds, connectAt = 7999, 5113
	}
	if rapid.IntRange(0, connectOdds).Draw(t, "connectstress") == connectAt {
		// channels created at the same moment through one bootstrap (its defaults: sequence ids, the channel holder)
		c.C05 = &C05Spec{ConnectStress: rapid.IntRange(2, 8).Draw(t, "connectors"), Rounds: 300}
		return c
	}
	spec := &C05Spec{SchedSetup: rapid.IntRange(0, 2).Draw(t, "schedsetup") != 0}
	c.C05 = spec
	if rapid.IntRange(0, 5).Draw(t, "cia") == 0 {
		spec.CloseInActive = rapid.SampledFrom([]string{"nil", "sentinel"}).Draw(t, "ciaerr")
		spec.SchedSetup = true
	}
	if rapid.IntRange(0, 3).Draw(t, "cir") == 0 {
		spec.CloseInRead = rapid.IntRange(1, 3).Draw(t, "cirk")
	}
	spec.CloseInEvent = rapid.IntRange(0, 3).Draw(t, "cie") == 0
	spec.Idle = rapid.IntRange(0, 2).Draw(t, "idle") == 0
	// closers with distinct errors
	kinds := []string{"sentinel", "wrapped", "nil", "eof", "neterr", "wrapped-neterr", "timeout", "deadline", "os-deadline", "wrapped-errclosed"}
	nc := rapid.IntRange(0, 4).Draw(t, "closers")
	for i := 0; i < nc; i++ {
		c.Tasks = append(c.Tasks, E1Task{Role: "closer", Ops: []E1Op{{Op: "close", Err: kinds[(i+rapid.IntRange(0, 9).Draw(t, "ck"))%len(kinds)]}}})
	}
	// other close sources and traffic
	if rapid.IntRange(0, 2).Draw(t, "feeder") != 0 {
		task := E1Task{Role: "feeder"}
		for i := rapid.IntRange(1, 5).Draw(t, "chunks"); i > 0; i-- {
			task.Ops = append(task.Ops, E1Op{Op: "feed", N: rapid.IntRange(1, 600).Draw(t, "fn")})
		}
		switch rapid.IntRange(0, 5).Draw(t, "fend") {
		case 0:
			task.Ops = append(task.Ops, E1Op{Op: "peereof"})
		case 1:
			kind := rapid.SampledFrom([]string{"neterr", "neterr", "timeout", "plain"}).Draw(t, "rerr")
			task.Ops = append(task.Ops, E1Op{Op: "failread", Err: kind})
			c.WrapRead = rapid.Bool().Draw(t, "wrapread")
			// an exception handler that only logs: the tail handler never closes the channel. Generated only with a
			// permanent (non-timeout) network error, which ends the read loop by itself; a swallowed plain error or
			// time-out leaves the channel open by design (C07: "... that no handler swallows"), and the loop keeps reading
			c.Swallow = kind == "neterr" && rapid.Bool().Draw(t, "swallow")
		case 2:
			task.Ops = append(task.Ops, E1Op{Op: "cancelparent"}, E1Op{Op: "feed", N: 2})
		}
		c.Tasks = append(c.Tasks, task)
	}
	if rapid.IntRange(0, 2).Draw(t, "trig") == 0 {
		c.Tasks = append(c.Tasks, E1Task{Role: "trigger", Ops: []E1Op{{Op: "trigger"}, {Op: "trigger"}}})
	}
	if rapid.IntRange(0, 3).Draw(t, "closeall") == 0 {
		c.Tasks = append(c.Tasks, E1Task{Role: "closer", Ops: []E1Op{{Op: "closeall", Err: "sentinel"}}})
	}
	nw := rapid.IntRange(0, 2).Draw(t, "writers")
	for w := 0; w < nw; w++ {
		task := E1Task{Role: "writer"}
		for i := rapid.IntRange(1, 3).Draw(t, "calls"); i > 0; i-- {
			op := genWriteOp(t, e1Entries)
			for k := range op.Sizes {
				if op.Sizes[k] > 2000 {
					op.Sizes[k] %= 13
				}
			}
			task.Ops = append(task.Ops, op)
		}
		c.Tasks = append(c.Tasks, task)
	}
	if nw > 0 && c.Kind != "sync" && rapid.IntRange(0, 3).Draw(t, "sfail") == 0 {
		c.Faults = []mock.Fault{{Op: rapid.SampledFrom([]string{"wr", "flush"}).Draw(t, "fop"), K: rapid.IntRange(1, 2).Draw(t, "fk"), Err: rapid.SampledFrom([]string{"plain", "neterr", "timeout"}).Draw(t, "ferr")}}
	}
	if len(c.Faults) == 0 && rapid.IntRange(0, 5).Draw(t, "closefault") == 0 {
		// the transport's own Close reports an error (the connection is closed all the same)
		c.Faults = []mock.Fault{{Op: "close", K: 1, Err: rapid.SampledFrom([]string{"plain", "neterr"}).Draw(t, "cferr")}}
	}
	if len(c.Tasks) == 0 {
		c.Tasks = append(c.Tasks, E1Task{Role: "closer", Ops: []E1Op{{Op: "close", Err: "sentinel"}}})
	}
	c.Futile = drawFutile(t, []int{0, 0, 0, 1})
	c.Schedule = genSchedule(t, 150)
	return c
}

// runC05Stress: real goroutines, real executor, no scheduler.
func runC05Stress(c E1Case) (out core.Outcome) {
	out.Classes = []string{"stress", "kind:" + c.Kind}
	n := c.C05.Stress
	for round := 0; round < imax(1, c.C05.Rounds); round++ {
		tr := mock.NewTransport(nil, false, nil)
		pl := netty.NewPipeline()
		factory := netty.NewChannel()
		if c.Kind != "sync" {
			factory = netty.NewAsyncWriteChannel(imax(1, c.Queue), c.Kind == "qblock")
		}
		ch := factory(1, context.Background(), pl, tr, netty.AsyncExecutor())
		var mu sync.Mutex
		var inactive []error
		pl.AddLast(netty.InactiveHandlerFunc(func(ctx netty.InactiveContext, ex netty.Exception) {
			mu.Lock()
			inactive = append(inactive, ex)
			mu.Unlock()
		}), netty.InboundHandlerFunc(func(ctx netty.InboundContext, m netty.Message) {
			buf := make([]byte, 64)
			if _, err := m.(io.Reader).Read(buf); err != nil {
				panic(err)
			}
		}), netty.ExceptionHandlerFunc(func(ctx netty.ExceptionContext, ex netty.Exception) {}))
		pl.ServeChannel(ch)
		start := make(chan struct{})
		var wg sync.WaitGroup
		errs := make([]error, n)
		for i := 0; i < n; i++ {
			errs[i] = fmt.Errorf("verif: stress close #%d", i)
			wg.Add(1)
			go func(i int) {
				defer wg.Done()
				<-start
				ch.Close(errs[i])
			}(i)
		}
		close(start)
		wg.Wait()
		mu.Lock()
		ni := len(inactive)
		var got error
		if ni > 0 {
			got = inactive[0]
		}
		mu.Unlock()
		if tr.CloseCount() != 1 || ni != 1 {
			out.Violation = core.Viol("C05/closer-election", "%d goroutines called Close at once (round %d): transport closed %d times, inactive delivered %d times", n, round, tr.CloseCount(), ni)
			return
		}
		found := false
		for _, e := range errs {
			if e == got {
				found = true
			}
		}
		if !found {
			out.Violation = core.Viol("C05/inactive-carries-wrong-error", "stress: inactive carried %v, which no Close call was given", got)
			return
		}
		if ch.IsActive() || ch.Context().Err() == nil {
			out.Violation = core.Viol("C05/active-after-close-returned", "stress: after all Close calls returned IsActive=%v ctx.Err=%v", ch.IsActive(), ch.Context().Err())
			return
		}
	}
	out.NonTrivial = true
	return
}

// c05ConnRec is the application's handler on a channel of the connect stress.
type c05ConnRec struct {
	active, inactive, exceptions int32
	firstEx                      atomic.Value
}

func (h *c05ConnRec) HandleActive(ctx netty.ActiveContext) {
	atomic.AddInt32(&h.active, 1)
	ctx.HandleActive()
}

func (h *c05ConnRec) HandleInactive(ctx netty.InactiveContext, ex netty.Exception) {
	atomic.AddInt32(&h.inactive, 1)
	ctx.HandleInactive(ex)
}

func (h *c05ConnRec) HandleException(ctx netty.ExceptionContext, ex netty.Exception) {
	if atomic.AddInt32(&h.exceptions, 1) == 1 {
		h.firstEx.Store(fmt.Sprint(ex))
	}
}

// runC05ConnectStress: real goroutines connect through one bootstrap at the same moment. Every channel that Connect
// hands out has had its active event exactly once — behind the bootstrap's own first handler, too — and, once closed,
// its inactive event exactly once.
func runC05ConnectStress(c E1Case) (out core.Outcome) {
	out.Classes = []string{"connect-stress", "kind:" + c.Kind}
	workers := c.C05.ConnectStress
	factory := &mock.Factory{NewT: func() *mock.Transport { return mock.NewTransport(nil, false, nil) }}
	chFactory := netty.NewChannel()
	if c.Kind != "sync" {
		chFactory = netty.NewAsyncWriteChannel(imax(1, c.Queue), c.Kind == "qblock")
	}
	// the pipeline factory is the first thing a bootstrap calls for a new channel: it lines the connectors of a round
	// up (timing only; it gives up after 20 ms and never waits for anything but the other connectors)
	var arrived int64
	pf := func() netty.Pipeline {
		n := atomic.AddInt64(&arrived, 1)
		target := ((n-1)/int64(workers) + 1) * int64(workers)
		begin := time.Now()
		for spins := 0; atomic.LoadInt64(&arrived) < target; spins++ {
			if spins > 20000 {
				if time.Since(begin) > 20*time.Millisecond {
					break
				}
				runtime.Gosched()
			}
		}
		return netty.NewPipeline()
	}
	bs := netty.NewBootstrap(netty.WithTransport(factory), netty.WithChannel(chFactory), netty.WithPipeline(pf),
		netty.WithClientInitializer(func(ch netty.Channel) {
			rec := &c05ConnRec{}
			ch.SetAttachment(rec)
			ch.Pipeline().AddLast(rec)
		}))
	defer bs.Shutdown()
	type res struct {
		ch       netty.Channel
		err      error
		actAtRet int32
	}
	for round := 0; round < imax(1, c.C05.Rounds); round++ {
		results := make([]res, workers)
		var wg sync.WaitGroup
		start := make(chan struct{})
		for i := 0; i < workers; i++ {
			wg.Add(1)
			go func(i int) {
				defer wg.Done()
				<-start
				ch, err := bs.Connect("mock://peer")
				results[i] = res{ch: ch, err: err}
				if err == nil && ch != nil {
					if rec, ok := ch.Attachment().(*c05ConnRec); ok {
						results[i].actAtRet = atomic.LoadInt32(&rec.active)
					}
				}
			}(i)
		}
		close(start)
		wg.Wait()
		ids := map[int64]int{}
		for i, r := range results {
			if r.err != nil || r.ch == nil {
				out.Inconclusive = fmt.Sprintf("connect stress: Connect over the mock factory failed: %v", r.err)
				return
			}
			rec, _ := r.ch.Attachment().(*c05ConnRec)
			if rec == nil {
				out.Inconclusive = "connect stress: the attachment set by the initializer is gone"
				return
			}
			if r.actAtRet != 1 {
				ex, _ := rec.firstEx.Load().(string)
				out.Violation = core.Viol("C05/active-not-exactly-once", "%d goroutines connected through one bootstrap at once (round %d): when Connect handed out channel %d (connector %d), its active event had reached the application's handler %d times, want 1 (exceptions seen: %d, first: %q)", workers, round, r.ch.ID(), i, r.actAtRet, atomic.LoadInt32(&rec.exceptions), ex)
				return
			}
			if j, dup := ids[r.ch.ID()]; dup {
				// not part of the statement by itself, but it is what breaks the holder: say so in the report of what follows
				out.Classes = append(out.Classes, fmt.Sprintf("duplicate-id-seen:%d/%d", j, i))
			}
			ids[r.ch.ID()] = i
		}
		for _, r := range results {
			r.ch.Close(nil)
		}
		for i, r := range results {
			rec := r.ch.Attachment().(*c05ConnRec)
			if a, n := atomic.LoadInt32(&rec.active), atomic.LoadInt32(&rec.inactive); a != 1 || n != 1 {
				out.Violation = core.Viol("C05/connect-stress-event-counts", "%d goroutines connected at once (round %d): channel %d (connector %d) closed: active delivered %d times, inactive %d times, want 1 and 1", workers, round, r.ch.ID(), i, a, n)
				return
			}
			if r.ch.IsActive() {
				out.Violation = core.Viol("C05/active-after-close-returned", "connect stress: IsActive after Close returned")
				return
			}
		}
	}
	out.NonTrivial = true
	return
}

func runC05(c E1Case) (out core.Outcome) {
	if c.C05 != nil && c.C05.Stress > 0 {
		return runC05Stress(c)
	}
	if c.C05 != nil && c.C05.ConnectStress > 0 {
		return runC05ConnectStress(c)
	}
	var extra []netty.Handler
	if c.C05 != nil && c.C05.Idle {
		extra = []netty.Handler{netty.ReadIdleHandler(time.Hour), netty.WriteIdleHandler(time.Hour)}
	}
	r := newE1(c, extra...)
	if len(extra) > 0 {
		r.cls.Add("shipped-idle-handlers-in-pipeline")
	}
	defer func() { out.Classes = r.cls.List() }()
	r.execute()
	if r.incon != "" {
		var se *sched.ErrSteps
		_ = se
		if rd := r.reader(); rd != nil && !rd.Done() && rd.Visits["read.next"] > 2000 {
			out.Violation = core.Viol("C05/read-loop-spins", "the read loop went round %d times without terminating (transport closed=%v, context err=%v)", rd.Visits["read.next"], r.tr.IsClosed(), r.ch.Context().Err())
			return
		}
		out.Inconclusive = r.incon
		r.sweep(true)
		return
	}
	r.baseClasses()
	p := r.c05
	viol := func(sig, f string, a ...interface{}) {
		if out.Violation == nil {
			out.Violation = core.Viol("C05/"+sig, f, a...)
		}
	}
	// --- before the final sweep: what the case itself produced
	if msg := r.escapedPanic(); msg != "" {
		out.Inconclusive = "panic escaped: " + msg
		r.sweep(true)
		return
	}
	readFailed := false
	for _, ev := range r.tr.EventsCopy() {
		if ev.Kind == "read" && ev.Rejected {
			readFailed = true
		}
	}
	if readFailed {
		r.cls.Add("read-failed")
		if c.Swallow {
			r.cls.Add("read-failure-swallowed-by-handler")
		}
		if c.WrapRead {
			r.cls.Add("read-failure-wrapped")
		}
		if rd := r.reader(); rd != nil && !rd.Done() {
			viol("read-loop-alive-after-read-failure", "a transport read failed but at the terminal state the read loop is still parked at %q", rd.Label())
		}
	}
	closesBefore := r.tr.CloseCount()
	anyClose := len(r.winners) > 0
	if closesBefore > 1 {
		viol("transport-closed-twice", "the transport was closed %d times", closesBefore)
	}
	if anyClose && closesBefore != 1 && r.allClosesReturned() {
		viol("transport-not-closed", "Close was called and returned but the transport Close count is %d", closesBefore)
	}
	r.sweep(true)
	if r.incon != "" && out.Violation == nil {
		out.Inconclusive = r.incon
		return
	}
	// --- after the sweep the channel is closed in every case
	if n := len(p.activeBegin); n > 1 {
		viol("active-delivered-twice", "active delivered %d times", n)
	}
	if len(p.activeBegin) == 1 {
		if len(p.activeEnd) != 1 {
			viol("active-never-completed", "active began but did not complete")
		} else {
			if r.serveReturned != 0 && p.activeEnd[0] > r.serveReturned {
				viol("handed-out-before-active-completed", "ServeChannel returned (seq %d) before the active event completed (seq %d)", r.serveReturned, p.activeEnd[0])
			}
			if len(p.readBegin) > 0 && p.readBegin[0] < p.activeEnd[0] {
				viol("read-before-active-completed", "first read delivered (seq %d) before the active event completed (seq %d)", p.readBegin[0], p.activeEnd[0])
			}
		}
	} else if len(p.readBegin) > 0 {
		viol("read-without-active", "%d reads delivered but active never was", len(p.readBegin))
	} else if r.serveReturned != 0 && len(p.activeBegin) == 0 {
		viol("active-never-delivered", "the channel was served and handed out (ServeChannel returned) but the active event was never delivered (inactive delivered %d times)", len(r.inactive))
	}
	if r.serveReturned == 0 {
		viol("serve-never-returned", "ServeChannel did not return")
	}
	if p.maxInFlight > 1 {
		viol("reads-overlap", "%d read deliveries were in flight at once", p.maxInFlight)
	}
	if n := r.tr.CloseCount(); n != 1 {
		viol("transport-close-count", "the transport was closed %d times", n)
	}
	if len(r.winners) != 1 {
		viol("closer-election", "%d Close calls took effect", len(r.winners))
	}
	if n := len(r.inactive); n != 1 {
		viol("inactive-count", "inactive delivered %d times", n)
	}
	if len(r.winners) >= 1 && len(r.inactive) >= 1 {
		w := r.winners[0]
		// the explicit Close call (if any) inside which the election was won
		var winCall *e1Call
		for _, cc := range r.closeCalls {
			if cc.TaskPtr == w.task && cc.Begin < w.seq && (cc.End == 0 || cc.End > w.seq) {
				winCall = cc
			}
		}
		got := r.inactive[0]
		if winCall != nil {
			if got != winCall.Err {
				viol("inactive-carries-wrong-error", "the Close call that took effect (%s) was given %v, inactive carried %v", winCall.Who, winCall.Err, got)
			}
			if winCall.End != 0 && !winCall.CtxErrAfter {
				viol("context-not-cancelled", "the Close call that took effect returned but the channel context was not cancelled")
			}
			if winCall.End != 0 && !(winCall.Begin < r.inactiveSeq[0] && r.inactiveSeq[0] < winCall.End) {
				viol("inactive-outside-winning-close", "inactive was delivered at seq %d, outside the Close call that took effect (%d..%d)", r.inactiveSeq[0], winCall.Begin, winCall.End)
			}
			r.cls.Add("winner:%s", winCall.Who)
		} else {
			// implicit closer: read loop (nil or its exception), tail handler / sender (the exception), holder.CloseAll
			ok := got == nil || got == r.holderErr
			for _, ex := range r.exceptions {
				if ex == got || errors.Is(got, ex) {
					ok = true
				}
			}
			for _, fe := range r.tr.FaultErr {
				if fe == got || errors.Is(got, fe) {
					ok = true
				}
			}
			var ne net.Error
			if !ok && errors.As(got, &ne) {
				ok = true // read failure objects created by the mock
			}
			if !ok {
				viol("inactive-carries-wrong-error", "implicit Close (task %s): inactive carried %v, which is neither nil nor an observed exception/failure", w.task.Name, got)
			}
			r.cls.Add("winner:implicit:%s", w.task.Name)
		}
	}
	overlap := 0
	for _, cc := range r.closeCalls {
		if cc.End == 0 {
			viol("close-never-returned", "a Close call (%s) never returned", cc.Who)
			continue
		}
		if cc.ActiveAfter {
			viol("active-after-close-returned", "IsActive() was true right after a Close call (%s) returned", cc.Who)
		}
		for _, dd := range r.closeCalls {
			if cc != dd && dd.End != 0 && cc.Begin < dd.End && dd.Begin < cc.End {
				overlap++
			}
		}
		r.cls.Add("close-source:%s", cc.Who)
	}
	if overlap > 0 {
		out.NonTrivial = true
		r.cls.Add("closes-overlap")
	}
	if c.C05.SchedSetup {
		r.cls.Add("scheduled-activation")
	}
	if r.holderErr != nil {
		r.cls.Add("close-source:holder")
	}
	for _, cc := range r.closeCalls {
		if cc.Err == nil {
			r.cls.Add("nil-error-close")
		}
	}
	if len(p.readBegin) > 0 {
		r.cls.Add("reads-delivered")
	}
	_ = fmt.Sprint
	return
}

// allClosesReturned: every explicit Close call has returned.
func (r *e1Run) allClosesReturned() bool {
	for _, cc := range r.closeCalls {
		if cc.End == 0 {
			return false
		}
	}
	for _, t := range r.s.Parked() {
		if l := t.Label(); len(l) > 6 && l[:6] == "close." {
			return false
		}
	}
	return true
}

func TestC05(t *testing.T) {
	core.Main(t, core.Prop[E1Case]{
		ID:      "C05",
		Gen:     genC05,
		Run:     runC05,
		Summary: summarizeE1,
	})
}
