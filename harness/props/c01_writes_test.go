package props

import (
	"context"
	"fmt"
	"io"
	"runtime"
	"sync"
	"sync/atomic"
	"testing"
	"time"

	netty "github.com/go-netty/go-netty"
	"github.com/go-netty/go-netty/utils/pool/pbytes"
	"verif/harness/mock"

	"pgregory.net/rapid"

	"verif/harness/core"
)

// C01 (order/intactness), C02 (no stranded writes), C10 (snapshot semantics):
// same scenario family — N writer tasks using the five low-level entry points
// on one channel under the cooperative scheduler.

var e1Sizes = []int{0, 1, 1, 2, 2, 3, 7, 7, 16, 100, 1023, 1024, 1025, 2047, 2048, 2049, 4095, 4096, 4097, 65535, 65536, 65537, 70000}
var e1Entries = []string{"write1", "writev", "ctxwrite1", "ctxwritev", "writerwrite"}

func genSchedule(t *rapid.T, maxLen int) []uint8 {
	return rapid.SliceOfN(rapid.Custom(func(t *rapid.T) uint8 {
		if rapid.IntRange(0, 5).Draw(t, "sw") != 0 {
			return 0
		}
		return uint8(rapid.IntRange(1, 3).Draw(t, "to"))
	}), 0, maxLen).Draw(t, "schedule")
}

func genSize(t *rapid.T) int {
	switch rapid.IntRange(0, 9).Draw(t, "szk") {
	case 0, 1, 2, 3, 4:
		return rapid.IntRange(0, 9).Draw(t, "small")
	case 5:
		return rapid.SampledFrom([]int{65535, 65536, 65537, 70000}).Draw(t, "huge")
	default:
		return rapid.SampledFrom(e1Sizes[:19]).Draw(t, "size")
	}
}

func genWriteOp(t *rapid.T, entries []string) E1Op {
	op := E1Op{Op: rapid.SampledFrom(entries).Draw(t, "entry")}
	switch op.Op {
	case "writev", "ctxwritev":
		n := rapid.IntRange(0, 4).Draw(t, "nseg")
		for i := 0; i < n; i++ {
			if rapid.IntRange(0, 4).Draw(t, "emptyseg") == 0 {
				op.Sizes = append(op.Sizes, 0)
			} else {
				op.Sizes = append(op.Sizes, genSize(t))
			}
		}
	default:
		op.Sizes = []int{genSize(t)}
	}
	if op.Op == "ctxwrite1" || op.Op == "ctxwritev" {
		// a context that is already done: the call may be refused (then it must contribute no bytes) or accepted
		op.Ctx = rapid.SampledFrom([]string{"", "", "", "cancelled", "deadline"}).Draw(t, "ctxkind")
	}
	return op
}

func genKind(t *rapid.T, c *E1Case, kinds []string) {
	c.Kind = rapid.SampledFrom(kinds).Draw(t, "kind")
	if c.Kind != "sync" {
		c.Queue = rapid.SampledFrom([]int{1, 1, 2, 2, 3, 4, 8}).Draw(t, "queue")
	}
	c.Buffered = rapid.Bool().Draw(t, "buffered")
	c.Split = rapid.IntRange(0, 2).Draw(t, "split") == 0
}

// release-window directed prefixes: bring the sender close to its release and a writer through its enqueue.
var e1Windows = []string{"send.beforeFlush", "t.flush", "send.beforeRelease", "send.afterRelease", "send.afterWritev", "send.beforeWritev", "send.top"}

func genReleasePrefix(t *rapid.T, nWriters int) []E1Dir {
	if nWriters < 1 {
		return nil
	}
	w0 := rapid.IntRange(0, nWriters-1).Draw(t, "pw0")
	w1 := rapid.IntRange(0, nWriters-1).Draw(t, "pw1")
	return []E1Dir{
		{Task: w0, Label: "enqueue.after"}, // first packet queued
		{Task: w0, Label: rapid.SampledFrom([]string{"call.begin", "enqueue.before", "enqueue.after"}).Draw(t, "pl0")}, // sender created
		{Task: -1, Label: rapid.SampledFrom(e1Windows).Draw(t, "win"), Repeat: rapid.IntRange(0, 1).Draw(t, "rep")},
		{Task: w1, Label: rapid.SampledFrom([]string{"enqueue.before", "enqueue.after", "call.begin"}).Draw(t, "pl1")},
	}
}

func genWritersCase(t *rapid.T, kinds []string, poison bool) E1Case {
	if rapid.IntRange(0, 59).Draw(t, "backlog") == 31 {
		return genBacklog(t, false)
	}
	var c E1Case
	genKind(t, &c, kinds)
	maxW, maxC := 3, 4
	if core.Thorough() {
		maxW, maxC = 4, 6
	}
	nw := rapid.IntRange(1, maxW).Draw(t, "writers")
	if rapid.IntRange(0, 3).Draw(t, "atleast2") != 0 && nw < 2 {
		nw = 2
	}
	for w := 0; w < nw; w++ {
		task := E1Task{Role: "writer"}
		nc := rapid.IntRange(1, maxC).Draw(t, "calls")
		for i := 0; i < nc; i++ {
			op := genWriteOp(t, e1Entries)
			op.Poison = poison
			task.Ops = append(task.Ops, op)
		}
		c.Tasks = append(c.Tasks, task)
	}
	if c.Kind != "sync" && rapid.IntRange(0, 2).Draw(t, "directed") == 0 {
		c.Prefix = genReleasePrefix(t, nw)
	}
	if c.Kind == "sync" && rapid.IntRange(0, 3).Draw(t, "deadlinefault") == 0 {
		// a context write arms a write deadline and clears it afterwards; one of those calls fails on the transport
		for ti := range c.Tasks {
			for oi := range c.Tasks[ti].Ops {
				if op := &c.Tasks[ti].Ops[oi]; (op.Op == "ctxwrite1" || op.Op == "ctxwritev") && op.Ctx == "" {
					op.Ctx = "deadline"
				}
			}
		}
		c.Faults = []mock.Fault{{Op: "deadline", K: rapid.IntRange(1, 4).Draw(t, "dfk"), Err: rapid.SampledFrom([]string{"plain", "neterr"}).Draw(t, "dferr")}}
	}
	c.Schedule = genSchedule(t, 200)
	return c
}

// poolAudit: what the channel has recycled into the process-wide byte pool during this case (also from its failure
// paths) is handed out again to one owner at a time. The audit takes a handful of buffers of the classes the channel
// uses and keeps them (so that a poisoned entry cannot reach the next case).
var poolAuditKeep [][]byte

func poolAudit() *core.Violation {
	for _, n := range []int{1024, 2048, 4096, 65536} {
		seen := map[*byte]int{}
		for k := 0; k < 6; k++ {
			b := pbytes.Get(n)
			if b == nil || cap(*b) == 0 {
				continue
			}
			full := (*b)[:cap(*b)]
			poolAuditKeep = append(poolAuditKeep, full)
			if len(poolAuditKeep) > 4096 {
				poolAuditKeep = poolAuditKeep[2048:]
			}
			base := &full[0]
			if j, dup := seen[base]; dup {
				return core.Viol("C10/pool-hands-out-the-same-memory-twice", "after the case: Get #%d and Get #%d of %d bytes from the byte pool returned the same memory: the channel has recycled one buffer more than once, the next two payloads of that size share it", j, k, n)
			}
			seen[base] = k
		}
	}
	return nil
}

// oracleStream implements C01's statement on the final stream (which contains every earlier stream as a prefix).
func oracleStream(r *e1Run, prop string) (e1Parsed, *core.Violation) {
	stream, _ := r.tr.Accepted()
	p, v := r.parseStream(stream)
	if v != nil {
		v.Sig = prop + "/" + v.Sig[len("stream/"):]
		return p, v
	}
	pos := map[int]int{}
	for i, id := range p.order {
		pos[id] = i
	}
	for _, id := range p.order {
		c := r.byID[id]
		if c.End != 0 && !c.ok() {
			return p, core.Viol(prop+"/failed-call-transmitted", "call #%d (%s, task %d) returned error %v but its %d bytes are in the transport stream", id, c.Op.Op, c.Task, c.Err, len(c.Payload))
		}
	}
	for _, a := range r.calls {
		if !isWriteOp(a.Op.Op) || len(a.Payload) == 0 {
			continue
		}
		if a.Op.Op == "readfrom" {
			// ReadFrom reports the bytes read from the source
		} else if a.ok() && a.N != int64(len(a.Payload)) {
			return p, core.Viol(prop+"/wrong-count", "call #%d (%s) succeeded with n=%d for a %d-byte payload", a.ID, a.Op.Op, a.N, len(a.Payload))
		}
		if a.Op.Op != "readfrom" && a.End != 0 && a.Err != nil && a.N != 0 {
			return p, core.Viol(prop+"/wrong-count", "call #%d (%s) failed (%v) but reported n=%d", a.ID, a.Op.Op, a.Err, a.N)
		}
		for _, b := range r.calls {
			if a == b || !isWriteOp(b.Op.Op) || len(b.Payload) == 0 {
				continue
			}
			// a must precede b?
			must := (a.Task == b.Task && a.Idx < b.Idx) || (a.End != 0 && a.End < b.Begin)
			if !must {
				continue
			}
			pa, ina := pos[a.ID]
			pb, inb := pos[b.ID]
			if ina && inb && pa > pb {
				why := "returned before the other call began"
				if a.Task == b.Task {
					why = "was issued earlier by the same goroutine"
				}
				return p, core.Viol(prop+"/order", "call #%d (%s, task %d) %s #%d (%s, task %d), but its payload follows it in the transport stream (stream order %v)", a.ID, a.Op.Op, a.Task, why, b.ID, b.Op.Op, b.Task, p.order)
			}
			if inb && !ina && a.ok() {
				return p, core.Viol(prop+"/not-a-prefix", "payload of call #%d is in the transport stream but the earlier accepted payload of call #%d (%s, task %d) is not (stream order %v)", b.ID, a.ID, a.Op.Op, a.Task, p.order)
			}
		}
	}
	return p, nil
}

// oracleComplete implements C02 at the terminal state.
func oracleComplete(r *e1Run, p e1Parsed, prop string) *core.Violation {
	in := map[int]bool{}
	for _, id := range p.order {
		in[id] = true
	}
	for _, c := range r.calls {
		if isWriteOp(c.Op.Op) && c.ok() && len(c.Payload) > 0 && !in[c.ID] {
			st := r.stuck()
			return core.Viol(prop+"/accepted-payload-stranded", "call #%d (%s, task %d, %d bytes) reported success but at the terminal state (no runnable task; parked: %v) its payload has not been handed to the transport (stream order %v)", c.ID, c.Op.Op, c.Task, len(c.Payload), st, p.order)
		}
	}
	if total, flushed := r.tr.AcceptedLen(); flushed != total {
		return core.Viol(prop+"/unflushed-bytes", "terminal state: %d of %d accepted bytes were never flushed", total-flushed, total)
	}
	for _, t := range r.tasks {
		if !t.Done() {
			return core.Viol(prop+"/writer-stuck", "terminal state: task %s is parked at %q and can never continue", t.Name, t.Label())
		}
	}
	return nil
}

func runWriters(c E1Case, prop string) (out core.Outcome) {
	r := newE1(c)
	defer func() { out.Classes = r.cls.List() }()
	r.execute()
	if r.incon != "" {
		out.Inconclusive = r.incon
		r.sweep(true)
		return
	}
	r.baseClasses()
	if msg := r.escapedPanic(); msg != "" {
		// C01/C02/C10 do not speak about escaped panics: inconclusive, with the stack
		out.Inconclusive = "panic escaped an API call: " + msg
		r.sweep(true)
		return
	}
	senderFault := false
	for _, f := range c.Faults {
		if c.Kind == "sync" && f.Op == "wr" {
			// a synchronous call whose transport write is refused fails itself; what reports success has been written
			r.cls.Add("sync-write-fault-injected")
			continue
		}
		if f.Op == "wr" || f.Op == "flush" {
			senderFault = true // the transport stops accepting writes: order and completeness are no longer promised (C01: "as long as the transport accepts writes")
		}
	}
	var p e1Parsed
	var v *core.Violation
	if senderFault {
		// what does reach the transport is still made of whole, unmodified payloads
		stream, _ := r.tr.Accepted()
		if p, v = r.parseStream(stream); v != nil {
			v.Sig = prop + "/" + v.Sig[len("stream/"):]
		}
		r.cls.Add("sender-fault-injected")
	} else {
		p, v = oracleStream(r, prop)
	}
	if ov := r.tr.WriteOverlap(); v == nil && ov != "" && prop == "C01" {
		// a transport is not safe for concurrent use (the shipped ones are bufio writers over a connection): two
		// write-side calls in progress at once can duplicate, drop or reorder bytes on a real transport
		v = core.Viol("C01/transport-write-calls-overlap", "%s; on a real (bufio-based) transport the payloads would not stay intact", ov)
	}
	if v == nil && prop != "C01" && !senderFault {
		v = oracleComplete(r, p, prop)
	}
	if v == nil && prop == "C01" {
		// C01 judges order and intactness only; completeness is C02's statement
	}
	out.Violation = v
	nw := 0
	for _, t := range c.Tasks {
		if t.Role == "writer" {
			nw++
		}
	}
	switch prop {
	case "C01":
		out.NonTrivial = nw >= 2 && (r.maxQ >= 2 || r.cls.Has("enqueue-in-release-window") || r.lockContended)
	case "C02":
		out.NonTrivial = r.cls.Has("enqueue-in-release-window")
	case "C10":
		out.NonTrivial = r.cls.Has("poisoned-while-pending") || r.cls.Has("scribbled-while-pending")
	}
	for _, cl := range r.calls {
		for _, n := range cl.Op.Sizes {
			switch {
			case n == 0:
				r.cls.Add("size:0")
			case n >= 1023 && n <= 1025:
				r.cls.Add("size:~1024")
			case n >= 65535:
				r.cls.Add("size:>=65535")
			case n >= 2047:
				r.cls.Add("size:class-boundary")
			}
		}
	}
	if len(r.senders()) > 0 {
		// delayed executor start: sender first scheduled after >= 2 enqueues
		if r.hooks["enqueue.after"] >= 2 {
			r.cls.Add("multi-enqueue")
		}
	}
	r.sweep(true)
	if out.Violation == nil && prop == "C10" {
		out.Violation = poolAudit()
	}
	if out.Violation == nil && r.incon != "" {
		out.Inconclusive = r.incon
	}
	return
}

func summarizeE1(c E1Case) interface{} {
	type taskSum struct {
		Role string   `json:"role"`
		Ops  []string `json:"ops"`
	}
	var ts []taskSum
	for _, t := range c.Tasks {
		s := taskSum{Role: t.Role}
		for _, op := range t.Ops {
			s.Ops = append(s.Ops, fmt.Sprintf("%s%v%s%s", op.Op, op.Sizes, op.Ctx, op.Err))
		}
		ts = append(ts, s)
	}
	pre := 0
	for _, v := range c.Schedule {
		if v != 0 {
			pre++
		}
	}
	return map[string]interface{}{"kind": c.Kind, "queue": c.Queue, "buffered": c.Buffered, "split": c.Split, "tasks": ts,
		"prefix": c.Prefix, "schedule_len": len(c.Schedule), "schedule_switches": pre, "stall": c.Stall}
}

func TestC01(t *testing.T) {
	core.Main(t, core.Prop[E1Case]{
		ID: "C01",
		Gen: func(t *rapid.T) E1Case {
			return genWritersCase(t, []string{"sync", "qblock", "qblock", "qnonblock"}, false)
		},
		Run:     func(c E1Case) core.Outcome { return runWriters(c, "C01") },
		Summary: summarizeE1,
	})
}

// runC02Stress: windows without any hook point (e.g. between a failed non-blocking enqueue attempt and the
// blocking one) are only reachable with real parallelism. Real goroutines and the real executor hammer a tiny
// queue; afterwards the state (all writers returned, sender idle, queue non-empty) is terminal, so a stranded
// packet is a fact, not a time-out.
func runC02Stress(c E1Case) (out core.Outcome) {
	out.Classes = []string{"stress", "kind:" + c.Kind}
	for round := 0; round < c.Stress; round++ {
		tr := mock.NewTransport(nil, c.Buffered || c.Kind == "sync", nil)
		tr.SlowWrites = c.Kind == "sync" // a write takes a moment: other writers queue up at the write lock meanwhile
		pl := netty.NewPipeline()
		ex := &countingExec{}
		factory := netty.NewAsyncWriteChannel(imax(1, c.Queue), c.Kind == "qblock")
		if c.Kind == "sync" {
			factory = netty.NewChannel()
		}
		ch := factory(1, context.Background(), pl, tr, ex)
		expired, cancelExpired := context.WithDeadline(context.Background(), time.Now().Add(-time.Second))
		cancelExpired() // its deadline has passed anyway
		pl.AddLast(netty.InboundHandlerFunc(func(ctx netty.InboundContext, m netty.Message) {
			buf := make([]byte, 64)
			if _, err := m.(io.Reader).Read(buf); err != nil {
				panic(err)
			}
		}), netty.ExceptionHandlerFunc(func(ctx netty.ExceptionContext, ex netty.Exception) {}))
		pl.ServeChannel(ch)
		var wg sync.WaitGroup
		var accepted int64
		start := make(chan struct{})
		for w, task := range c.Tasks {
			wg.Add(1)
			go func(w int, task E1Task) {
				defer wg.Done()
				<-start
				for i, op := range task.Ops {
					p := []byte{byte(w), byte(i), 1, 2, 3}
					var n int64
					var err error
					switch op.Op {
					case "writev", "ctxwritev":
						n, err = ch.Writev([][]byte{p[:2], p[2:]})
					case "ctxwrite1":
						// a write given up at once (its deadline has passed): it fails and contributes nothing
						var k int
						k, err = ch.(ctxWriter).CtxWrite1(expired, p)
						n = int64(k)
					default:
						var k int
						k, err = ch.Write1(p)
						n = int64(k)
					}
					if err == nil {
						atomic.AddInt64(&accepted, n)
					}
				}
			}(w, task)
		}
		close(start)
		writersDone := make(chan struct{})
		go func() { wg.Wait(); close(writersDone) }()
		stuck := 0
	waitWriters:
		for {
			select {
			case <-writersDone:
				break waitWriters
			case <-time.After(50 * time.Millisecond):
				// writers still inside their calls: if no sender action is running or submitted, a writer
				// waiting for queue space can never continue
				if st, _ := netty.VerifState(ch); atomic.LoadInt64(&ex.senders) == 0 && st.QueueLen >= st.QueueCap {
					stuck++
				} else {
					stuck = 0
				}
				if stuck >= 3 {
					st, _ := netty.VerifState(ch)
					out.Violation = core.Viol("C02/writer-stuck", "stress round %d: writers are waiting for queue space (%d/%d queued) but no sender action is running or submitted: the queued packets are stranded", round, st.QueueLen, st.QueueCap)
					return // the channel is not closed: Close would wait for the stranded packets for ever
				}
			}
		}
		// Every writer has returned. Once no sender action is submitted or running any more, nothing can
		// change: that state is terminal (the flags alone are not: a sender between releasing the flag and
		// re-checking the queue looks idle).
		deadline := time.Now().Add(20 * time.Second)
		for atomic.LoadInt64(&ex.senders) > 0 {
			if time.Now().After(deadline) {
				out.Inconclusive = "stress: a sender action is still running after 20 s"
				ch.Close(nil)
				return
			}
			time.Sleep(20 * time.Microsecond)
		}
		st, _ := netty.VerifState(ch)
		total, flushed := tr.AcceptedLen()
		if st.QueueLen > 0 || int64(total) != atomic.LoadInt64(&accepted) || flushed != total {
			out.Violation = core.Viol("C02/accepted-payload-stranded", "stress round %d: all writers returned (accepted %d bytes) and no sender action is running or submitted, yet %d packets are still queued and the transport holds %d bytes (%d flushed)", round, atomic.LoadInt64(&accepted), st.QueueLen, total, flushed)
			return // not closed, see above
		}
		ch.Close(nil)
	}
	out.NonTrivial = true
	return
}

// countingExec runs actions on goroutines like the default executor and counts the sender actions
// (every action but the first, which is the read loop) from submission to completion.
type countingExec struct {
	n       int64
	senders int64
}

func (e *countingExec) Exec(a netty.Action) {
	if atomic.AddInt64(&e.n, 1) == 1 {
		go a()
		return
	}
	atomic.AddInt64(&e.senders, 1)
	go func() {
		defer atomic.AddInt64(&e.senders, -1)
		a()
	}()
}

func TestC02(t *testing.T) {
	core.Main(t, core.Prop[E1Case]{
		ID: "C02",
		Gen: func(t *rapid.T) E1Case {
			if rapid.IntRange(0, 399).Draw(t, "stress") == 237 { // a mid-range value: rapid favours the ends of a range
				c := E1Case{Kind: rapid.SampledFrom([]string{"qblock", "qblock", "qnonblock", "sync"}).Draw(t, "kind"), Queue: rapid.SampledFrom([]int{1, 1, 2}).Draw(t, "queue"), Stress: 400}
				entries := []string{"write1", "writev"}
				if c.Kind == "sync" {
					entries = []string{"write1", "writev", "ctxwrite1", "ctxwrite1"}
				}
				for w := rapid.IntRange(2, 3).Draw(t, "writers"); w > 0; w-- {
					task := E1Task{Role: "writer"}
					for i := rapid.IntRange(5, 20).Draw(t, "calls"); i > 0; i-- {
						task.Ops = append(task.Ops, E1Op{Op: rapid.SampledFrom(entries).Draw(t, "entry"), Sizes: []int{5}})
					}
					c.Tasks = append(c.Tasks, task)
				}
				return c
			}
			if rapid.IntRange(0, 199).Draw(t, "megabytes") == 93 {
				// payloads of several hundred kilobytes that pile up behind a sender that starts late: more than a
				// megabyte in one round of the sender
				c := E1Case{Kind: rapid.SampledFrom([]string{"qblock", "qnonblock"}).Draw(t, "kind"), Queue: rapid.SampledFrom([]int{3, 4, 8}).Draw(t, "queue")}
				task := E1Task{Role: "writer"}
				for _, n := range rapid.SampledFrom([][]int{{614400, 614400}, {524288, 524288, 1}, {700000, 5, 400000}, {1048576, 1}}).Draw(t, "mbsizes") {
					task.Ops = append(task.Ops, E1Op{Op: rapid.SampledFrom([]string{"write1", "writev", "ctxwrite1"}).Draw(t, "entry"), Sizes: []int{n}})
				}
				c.Tasks = []E1Task{task}
				c.Prefix = []E1Dir{{Task: 0, Label: "\x00end"}} // the writer finishes all its calls before the sender gets to run
				return c
			}
			c := genWritersCase(t, []string{"qblock", "qblock", "qnonblock", "sync"}, false)
			if c.Kind != "sync" && len(c.Prefix) == 0 && rapid.Bool().Draw(t, "forcedir") {
				c.Prefix = genReleasePrefix(t, len(c.Tasks))
			}
			if rapid.IntRange(0, 5).Draw(t, "withreadfrom") == 0 {
				// a streamed reader as the only traffic (other writers would interleave with its chunks, C09): its last chunk
				// must be flushed like everything else, whatever its length and however the source ends
				c.Tasks = c.Tasks[:1]
				c.Prefix = nil
				if c.Kind == "qnonblock" {
					c.Queue = 8 // no refusals here
				}
				size := rapid.SampledFrom([]int{1, 1023, 1024, 1025, 2048, 3000, 4096}).Draw(t, "rfsize")
				c.Tasks[0].Ops = append(c.Tasks[0].Ops[:imin(1, len(c.Tasks[0].Ops))], E1Op{Op: "readfrom", Sizes: []int{size}, N: rapid.SampledFrom([]int{700, 1024, 4096}).Draw(t, "rfstep"), EOFData: rapid.Bool().Draw(t, "rfeofdata")})
				c.Buffered = true
				if c.Kind == "sync" && rapid.IntRange(0, 2).Draw(t, "rffault") == 0 {
					// one of the transport writes fails: the call that reports success all the same has lost bytes
					// (a flush fault is not used: what a failed flush leaves in a buffered transport may still go out)
					c.Faults = []mock.Fault{{Op: "wr", K: rapid.IntRange(1, 6).Draw(t, "rffk"), Err: rapid.SampledFrom([]string{"plain", "neterr"}).Draw(t, "rfferr")}}
				}
			}
			return c
		},
		Run: func(c E1Case) core.Outcome {
			if c.Stress > 0 {
				return runC02Stress(c)
			}
			out := runWriters(c, "C02")
			total := 0
			for _, tk := range c.Tasks {
				for _, op := range tk.Ops {
					for _, n := range op.Sizes {
						total += n
					}
				}
			}
			if total > 1<<20 {
				out.Classes = append(out.Classes, "more-than-a-megabyte-queued")
			}
			return out
		},
		Summary: summarizeE1,
	})
}

func TestC10(t *testing.T) {
	prev := runtime.GOMAXPROCS(1)
	defer runtime.GOMAXPROCS(prev)
	core.Main(t, core.Prop[E1Case]{
		ID: "C10",
		Gen: func(t *rapid.T) E1Case {
			c := genWritersCase(t, []string{"qblock", "qblock", "qnonblock", "sync"}, true)
			// readfrom: the ownership-transfer path. Only with a single writer: a streamed
			// reader is several low-level writes, which other writers may interleave (C09).
			if rapid.IntRange(0, 3).Draw(t, "withreadfrom") == 0 {
				c.Tasks = c.Tasks[:1]
				c.Prefix = nil
				rfSize := rapid.SampledFrom([]int{1, 100, 1024, 1025, 2500, 5000}).Draw(t, "rfsize")
				rfStep := rapid.SampledFrom([]int{1, 7, 700, 1024, 4096}).Draw(t, "rfstep")
				if rfSize/rfStep > 40 {
					rfStep = 700 // bound the number of chunks (each is a separate low-level write)
				}
				ops := c.Tasks[0].Ops
				at := rapid.IntRange(0, len(ops)).Draw(t, "rfat")
				rf := E1Op{Op: "readfrom", Sizes: []int{rfSize}, N: rfStep, Poison: true, Empty: rapid.IntRange(0, 2).Draw(t, "rfempty") == 0, EOFData: rapid.Bool().Draw(t, "rfeofdata"), Pausing: rapid.Bool().Draw(t, "rfpausing")}
				c.Tasks[0].Ops = append(append(append([]E1Op{}, ops[:at]...), rf), ops[at:]...)
				// a few small writes afterwards: they draw from the pool class ReadFrom uses
				for k := rapid.IntRange(0, 3).Draw(t, "rftail"); k > 0; k-- {
					c.Tasks[0].Ops = append(c.Tasks[0].Ops, E1Op{Op: "write1", Sizes: []int{rapid.IntRange(1, 1024).Draw(t, "tailsz")}, Poison: true})
				}
			}
			hasReadFrom := false
			for _, tk := range c.Tasks {
				for _, op := range tk.Ops {
					hasReadFrom = hasReadFrom || op.Op == "readfrom"
				}
			}
			// (not with a streamed reader: when its first chunk is lost with the failed batch, the later chunks on the wire
			// cannot be told from foreign bytes by the stream parser)
			if c.Kind != "sync" && len(c.Faults) == 0 && !hasReadFrom && rapid.IntRange(0, 3).Draw(t, "senderfault") == 0 {
				// the sender's failure path recycles buffers, too: what it leaves in the pool is audited after the case
				c.Faults = []mock.Fault{{Op: rapid.SampledFrom([]string{"wr", "wr", "flush"}).Draw(t, "fop"), K: rapid.IntRange(1, 4).Draw(t, "fk"), Err: rapid.SampledFrom([]string{"plain", "neterr", "timeout"}).Draw(t, "ferr")}}
			}
			ns := rapid.IntRange(0, 2).Draw(t, "scribblers")
			for i := 0; i < ns; i++ {
				task := E1Task{Role: "scribbler"}
				n := rapid.IntRange(1, 6).Draw(t, "nscribble")
				for k := 0; k < n; k++ {
					task.Ops = append(task.Ops, E1Op{Op: "scribble", N: genSize(t)})
				}
				c.Tasks = append(c.Tasks, task)
			}
			return c
		},
		Run:     func(c E1Case) core.Outcome { return runWriters(c, "C10") },
		Summary: summarizeE1,
	})
}
