//go:build race

package props

const raceEnabled = true
