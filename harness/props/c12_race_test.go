package props

import (
	"bytes"
	"context"
	"fmt"
	"io"
	"os"
	"regexp"
	"sort"
	"strings"
	"sync"
	"sync/atomic"
	"syscall"
	"testing"
	"time"

	netty "github.com/go-netty/go-netty"
	"github.com/go-netty/go-netty/codec/format"
	"github.com/go-netty/go-netty/codec/frame"
	"github.com/go-netty/go-netty/transport"
	"github.com/go-netty/go-netty/transport/tcp"
	"github.com/go-netty/go-netty/utils/pool/pbuffer"
	"github.com/go-netty/go-netty/utils/pool/pbytes"
	"pgregory.net/rapid"

	"verif/harness/core"
	"verif/harness/mock"
)

// C12 — no data races in the concurrently usable API (oracle: the Go race detector).

type C12G struct {
	StartMs  int      `json:"start_ms"`
	RepeatMs int      `json:"repeat_ms"`
	GapUs    int      `json:"gap_us"`
	Ops      []string `json:"ops"`
}

type C12Prog struct {
	Target string `json:"target"` // sync | qblock | qnonblock | bootstrap | tcp | holder | idle | pool
	Gs     []C12G `json:"gs"`
}

type C12Case struct {
	Progs []C12Prog `json:"progs"`
}

var c12Ops = map[string][]string{
	"sync": {"write1", "writev", "ctxwrite1", "ctxwritev", "writerwrite", "readfrom", "write", "trigger", "close", "isactive", "context", "inbound"},
	// a channel whose pipeline has no exception handler of its own: exceptions reach the built-in tail handler
	"bare": {"badwrite", "badwrite", "write1", "trigger", "isactive"},
	// a queued channel whose pipeline holds the shipped varint frame codec and JSON codec: messages are objects
	"json":      {"objwrite", "objwrite", "textwrite", "inbound", "isactive"},
	"qblock":    {"write1", "writev", "ctxwrite1", "ctxwritev", "writerwrite", "readfrom", "write", "trigger", "close", "isactive", "context", "inbound"},
	"qnonblock": {"write1", "writev", "ctxwrite1", "ctxwritev", "writerwrite", "readfrom", "write", "trigger", "close", "isactive", "context", "inbound"},
	"bootstrap": {"listen-async", "listener-close", "shutdown", "connect", "inbound", "context"},
	"tcp":       {"listen-async", "listener-close", "shutdown", "connect", "context"},
	"holder":    {"open-channel", "close-channel", "closeall"},
	"idle":      {"inbound", "write", "close", "trigger"},
	"pool":      {"bytes-get-put", "buffer-get-put", "bytes-put-foreign"},
}

var c12Mutating = map[string]bool{"close": true, "shutdown": true, "listener-close": true, "closeall": true, "listen-async": true, "connect": true,
	"open-channel": true, "close-channel": true, "write1": true, "writev": true, "ctxwrite1": true, "ctxwritev": true, "writerwrite": true,
	"readfrom": true, "write": true, "badwrite": true, "objwrite": true, "textwrite": true, "inbound": true, "bytes-get-put": true, "buffer-get-put": true, "bytes-put-foreign": true, "trigger": true}

func genC12Prog(t *rapid.T) C12Prog {
	p := C12Prog{Target: rapid.SampledFrom([]string{"sync", "qblock", "qblock", "qnonblock", "bootstrap", "bootstrap", "tcp", "holder", "idle", "pool", "bare", "json"}).Draw(t, "target")}
	ops := c12Ops[p.Target]
	ng := rapid.IntRange(2, 4).Draw(t, "ng")
	for g := 0; g < ng; g++ {
		gg := C12G{
			StartMs:  rapid.SampledFrom([]int{0, 0, 1, 20, 120, 250}).Draw(t, "start"),
			RepeatMs: rapid.SampledFrom([]int{0, 0, 50, 300}).Draw(t, "repeat"),
			GapUs:    rapid.SampledFrom([]int{0, 100, 2000}).Draw(t, "gap"),
		}
		if p.Target == "idle" && g > 0 {
			// the idle timers fire one second after the last read/write: be busy right then
			gg.StartMs = rapid.SampledFrom([]int{0, 970, 990, 998, 1005}).Draw(t, "idlestart")
			gg.RepeatMs = rapid.SampledFrom([]int{0, 30, 80}).Draw(t, "idlerepeat")
			gg.GapUs = rapid.SampledFrom([]int{0, 100}).Draw(t, "idlegap")
		}
		gg.Ops = rapid.SliceOfN(rapid.SampledFrom(ops), 1, 5).Draw(t, "ops")
		p.Gs = append(p.Gs, gg)
	}
	return p
}

func genC12(t *rapid.T) C12Case {
	var c C12Case
	n := 24
	for i := 0; i < n; i++ {
		c.Progs = append(c.Progs, genC12Prog(t))
	}
	return c
}

// enumC12 covers every unordered pair of operation kinds per target at least once, with three pacings.
func enumC12(emit func(C12Case)) {
	var progs []C12Prog
	targets := make([]string, 0, len(c12Ops))
	for k := range c12Ops {
		targets = append(targets, k)
	}
	sort.Strings(targets)
	for _, tg := range targets {
		ops := c12Ops[tg]
		for i := 0; i < len(ops); i++ {
			for j := i; j < len(ops); j++ {
				if !c12Mutating[ops[i]] && !c12Mutating[ops[j]] {
					continue
				}
				paces := [][2]int{{0, 0}, {120, 300}, {20, 50}}
				if tg == "idle" {
					paces = [][2]int{{0, 0}, {985, 60}, {998, 30}}
				}
				for _, pace := range paces {
					g0 := C12G{StartMs: 0, RepeatMs: pace[1], GapUs: 100, Ops: []string{ops[i]}}
					g1 := C12G{StartMs: pace[0], RepeatMs: pace[1], GapUs: 100, Ops: []string{ops[j]}}
					if tg == "idle" && pace[0] > 0 {
						// one stimulus at t=0 arms the timers for t=1s; the second goroutine hammers around that moment
						g0.RepeatMs, g1.GapUs = 0, 0
					}
					progs = append(progs, C12Prog{Target: tg, Gs: []C12G{g0, g1}})
				}
			}
		}
	}
	for i := 0; i < len(progs); i += 32 {
		emit(C12Case{Progs: progs[i:imin(i+32, len(progs))]})
	}
}

// --- stderr capture -----------------------------------------------------------------

var c12Log struct {
	once sync.Once
	f    *os.File
	orig *os.File
	off  int64
}

func c12Capture() {
	c12Log.once.Do(func() {
		f, err := os.CreateTemp("", "c12-stderr-*")
		if err != nil {
			return
		}
		fd, err := syscall.Dup(2)
		if err != nil {
			return
		}
		c12Log.orig = os.NewFile(uintptr(fd), "orig-stderr")
		if err := syscall.Dup2(int(f.Fd()), 2); err != nil {
			return
		}
		c12Log.f = f
		os.Remove(f.Name())
	})
}

func c12NewOutput() string {
	if c12Log.f == nil {
		return ""
	}
	st, err := c12Log.f.Stat()
	if err != nil || st.Size() <= c12Log.off {
		return ""
	}
	buf := make([]byte, st.Size()-c12Log.off)
	n, _ := c12Log.f.ReadAt(buf, c12Log.off)
	c12Log.off += int64(n)
	return string(buf[:n])
}

type c12Report struct {
	sig  string
	text string
	ours bool // at least one stack has a go-netty frame
}

var (
	reAccess = regexp.MustCompile(`^(Write|Read|Previous write|Previous read|Atomic write|Atomic read|Previous atomic write|Previous atomic read) at 0x[0-9a-f]+ by `)
	reFile   = regexp.MustCompile(`^\s+(/\S+\.go):(\d+)`)
)

var c12SrcCache = map[string][]string{}

func c12SourceLine(file string, line int) string {
	lines, ok := c12SrcCache[file]
	if !ok {
		data, err := os.ReadFile(file)
		if err == nil {
			lines = strings.Split(string(data), "\n")
		}
		c12SrcCache[file] = lines
	}
	if line >= 1 && line <= len(lines) {
		return strings.Join(strings.Fields(lines[line-1]), " ")
	}
	return "?"
}

func parseRaceReports(out string) []c12Report {
	var reports []c12Report
	for _, block := range strings.Split(out, "==================") {
		if !strings.Contains(block, "WARNING: DATA RACE") {
			continue
		}
		lines := strings.Split(block, "\n")
		var parts []string
		ours := false
		for i := 0; i < len(lines); i++ {
			m := reAccess.FindStringSubmatch(lines[i])
			if m == nil {
				continue
			}
			kind := "r"
			if strings.Contains(strings.ToLower(m[1]), "write") {
				kind = "w"
			}
			// frames: pairs of (function, file:line) until an empty line
			part := kind + ":<outside go-netty>"
			for j := i + 1; j+1 < len(lines) && strings.TrimSpace(lines[j]) != ""; j += 2 {
				fn := strings.TrimSpace(lines[j])
				if !strings.HasPrefix(fn, "github.com/go-netty/go-netty") {
					continue
				}
				fm := reFile.FindStringSubmatch(lines[j+1])
				src := "?"
				if fm != nil {
					var ln int
					fmt.Sscan(fm[2], &ln)
					src = c12SourceLine(fm[1], ln)
				}
				short := fn[strings.LastIndex(fn, "/")+1:]
				if k := strings.Index(short, "("); k > 0 && strings.HasSuffix(short, ")") {
					short = strings.TrimSuffix(short, "()")
				}
				part = fmt.Sprintf("%s[%s: %s]", short, kind, src)
				ours = true
				break
			}
			parts = append(parts, part)
		}
		sort.Strings(parts)
		reports = append(reports, c12Report{sig: "C12/race:" + strings.Join(parts, "~"), text: block, ours: ours})
	}
	return reports
}

// --- program execution -----------------------------------------------------------------

var c12Port int32

type c12Env struct {
	prog    C12Prog
	ch      netty.Channel
	tr      *mock.Transport
	bs      netty.Bootstrap
	factory *mock.Factory
	lmu     sync.Mutex
	ls      []netty.Listener
	holder  netty.ChannelHolder
	hmu     sync.Mutex
	hchans  []netty.Channel
	nextID  int64
	port    int
	cleanup []func()
	// opts: one option slice with spare capacity that every Connect/Listen of the program passes on (opts...)
	opts []transport.Option
}

func c12Pipeline(ch netty.Channel, extra ...netty.Handler) {
	for _, h := range extra {
		ch.Pipeline().AddLast(h)
	}
	ch.Pipeline().AddLast(netty.InboundHandlerFunc(func(ctx netty.InboundContext, m netty.Message) {
		buf := make([]byte, 256)
		if _, err := m.(io.Reader).Read(buf); err != nil {
			panic(err)
		}
	}), netty.EventHandlerFunc(func(ctx netty.EventContext, ev netty.Event) {}),
		netty.ExceptionHandlerFunc(func(ctx netty.ExceptionContext, ex netty.Exception) { ctx.Close(ex) }))
}

func newC12Env(p C12Prog) *c12Env {
	e := &c12Env{prog: p}
	newCh := func(kind string, extra ...netty.Handler) (netty.Channel, *mock.Transport) {
		tr := mock.NewTransport(nil, false, nil)
		pl := netty.NewPipeline()
		f := netty.NewChannel()
		switch kind {
		case "qblock":
			f = netty.NewAsyncWriteChannel(4, true)
		case "qnonblock":
			f = netty.NewAsyncWriteChannel(4, false)
		}
		ch := f(atomic.AddInt64(&e.nextID, 1), context.Background(), pl, tr, netty.AsyncExecutor())
		c12Pipeline(ch, extra...)
		return ch, tr
	}
	switch p.Target {
	case "sync", "qblock", "qnonblock":
		e.ch, e.tr = newCh(p.Target)
		e.ch.Pipeline().ServeChannel(e.ch)
	case "json":
		e.ch, e.tr = newCh("qblock", frame.VarintLengthFieldCodec(1<<20), format.JSONCodec(true, false))
		e.ch.Pipeline().ServeChannel(e.ch)
	case "bare":
		tr := mock.NewTransport(nil, false, nil)
		pl := netty.NewPipeline()
		e.ch, e.tr = netty.NewChannel()(atomic.AddInt64(&e.nextID, 1), context.Background(), pl, tr, netty.AsyncExecutor()), tr
		pl.AddLast(netty.InboundHandlerFunc(func(ctx netty.InboundContext, m netty.Message) {
			buf := make([]byte, 256)
			if _, err := m.(io.Reader).Read(buf); err != nil {
				panic(err)
			}
		}))
		pl.ServeChannel(e.ch)
	case "idle":
		e.ch, e.tr = newCh("qblock", netty.ReadIdleHandler(time.Second), netty.WriteIdleHandler(time.Second))
		e.ch.Pipeline().ServeChannel(e.ch)
	case "holder":
		e.holder = netty.NewChannelHolder(4)
	case "bootstrap":
		e.opts = append(make([]transport.Option, 0, 4), transport.WithAttachment("shared options"))
		e.factory = &mock.Factory{NewT: func() *mock.Transport { return mock.NewTransport(nil, false, nil) }}
		e.bs = netty.NewBootstrap(netty.WithTransport(e.factory),
			netty.WithChildInitializer(func(ch netty.Channel) { c12Pipeline(ch) }), netty.WithClientInitializer(func(ch netty.Channel) { c12Pipeline(ch) }))
	case "tcp":
		// one *tcp.Options value shared by every Connect/Listen of the program (keep-alive on, period left at its zero value)
		e.opts = append(make([]transport.Option, 0, 4), tcp.WithOptions(&tcp.Options{KeepAlive: true, NoDelay: true}))
		e.port = 21000 + int(atomic.AddInt32(&c12Port, 1))%2000 + 2000*(os.Getpid()%10)
		e.bs = netty.NewBootstrap(netty.WithChildInitializer(func(ch netty.Channel) { c12Pipeline(ch) }), netty.WithClientInitializer(func(ch netty.Channel) { c12Pipeline(ch) }))
	}
	return e
}

func (e *c12Env) do(op string, g, k int) {
	defer func() { _ = recover() }() // API misuse panics (duplicate listener etc.) are not this property's subject
	payload := []byte{byte(g), byte(k), 3, 4, 5, 6, 7, 8}
	switch op {
	case "write1":
		_, _ = e.ch.Write1(payload)
	case "writev":
		_, _ = e.ch.Writev([][]byte{payload[:3], payload[3:]})
	case "ctxwrite1":
		_, _ = e.ch.CtxWrite1(context.Background(), payload)
	case "ctxwritev":
		_, _ = e.ch.CtxWritev(context.Background(), [][]byte{payload})
	case "writerwrite":
		_, _ = e.ch.Writer().Write(payload)
	case "readfrom":
		_, _ = e.ch.ReadFrom(bytes.NewReader(make([]byte, 1500)))
	case "write":
		_ = e.ch.Write(payload)
	case "objwrite":
		_ = e.ch.Write(map[string]interface{}{"g": g, "k": k, "text": "some text to encode", "list": []int{1, 2, 3}})
	case "textwrite":
		_ = e.ch.Write(map[string]interface{}{"t": fmt.Sprintf("writer %d message %d", g, k)})
	case "badwrite":
		_ = e.ch.Write(struct{ A int }{g}) // unsupported type: the head handler raises
	case "trigger":
		e.ch.Trigger("event")
	case "close":
		e.ch.Close(fmt.Errorf("close by g%d", g))
	case "isactive":
		_ = e.ch.IsActive()
	case "context":
		if e.ch != nil {
			_ = e.ch.Context().Err()
		} else {
			_ = e.bs.Context().Err()
		}
	case "inbound":
		if e.tr != nil {
			e.tr.Feed([]byte{1, 2, 3})
		} else if e.factory != nil {
			if accs := e.factory.AcceptorsCopy(); len(accs) > 0 {
				accs[k%len(accs)].Hand(e.factory.NewT())
			}
		}
	case "listen-async":
		url := fmt.Sprintf("mock://h:%d", 1+g*10+k)
		if e.prog.Target == "tcp" {
			url = fmt.Sprintf("tcp://127.0.0.1:%d", e.port)
		}
		l := e.bs.Listen(url, e.opts...)
		e.lmu.Lock()
		e.ls = append(e.ls, l)
		e.lmu.Unlock()
		l.Async(func(error) {})
	case "listener-close":
		e.lmu.Lock()
		var l netty.Listener
		if len(e.ls) > 0 {
			l = e.ls[k%len(e.ls)]
		}
		e.lmu.Unlock()
		if l != nil {
			_ = l.Close()
		}
	case "shutdown":
		e.bs.Shutdown()
	case "connect":
		url := "mock://peer:1"
		if e.prog.Target == "tcp" {
			url = fmt.Sprintf("tcp://127.0.0.1:%d", e.port)
		}
		_, _ = e.bs.Connect(url, e.opts...)
	case "open-channel":
		tr := mock.NewTransport(nil, false, nil)
		pl := netty.NewPipeline()
		ch := netty.NewChannel()(atomic.AddInt64(&e.nextID, 1), context.Background(), pl, tr, netty.AsyncExecutor())
		pl.AddLast(e.holder)
		c12Pipeline(ch)
		pl.ServeChannel(ch)
		e.hmu.Lock()
		e.hchans = append(e.hchans, ch)
		e.hmu.Unlock()
	case "close-channel":
		e.hmu.Lock()
		var ch netty.Channel
		if len(e.hchans) > 0 {
			ch = e.hchans[k%len(e.hchans)]
		}
		e.hmu.Unlock()
		if ch != nil {
			ch.Close(nil)
		}
	case "closeall":
		e.holder.CloseAll(fmt.Errorf("closeall"))
	case "bytes-get-put":
		b := pbytes.Get(100 + 1000*k)
		*b = append((*b)[:0], byte(g))
		pbytes.Put(b)
	case "buffer-get-put":
		b := pbuffer.Get(100 + 1000*k)
		b.WriteByte(byte(g))
		pbuffer.Put(b)
	case "bytes-put-foreign":
		s := make([]byte, 0, 1024<<uint(k%4))
		pbytes.Put(&s)
	}
}

func (e *c12Env) finish() {
	defer func() { _ = recover() }()
	if e.ch != nil {
		e.ch.Close(nil)
	}
	if e.bs != nil {
		e.bs.Shutdown()
	}
	if e.holder != nil {
		e.holder.CloseAll(nil)
	}
}

func runC12Prog(p C12Prog) {
	e := newC12Env(p)
	start := make(chan struct{})
	var wg sync.WaitGroup
	for gi, g := range p.Gs {
		wg.Add(1)
		go func(gi int, g C12G) {
			defer wg.Done()
			<-start
			time.Sleep(time.Duration(g.StartMs) * time.Millisecond)
			deadline := time.Now().Add(time.Duration(g.RepeatMs) * time.Millisecond)
			for round := 0; ; round++ {
				for k, op := range g.Ops {
					e.do(op, gi, k+round)
					if g.GapUs > 0 {
						time.Sleep(time.Duration(g.GapUs) * time.Microsecond)
					}
				}
				if !time.Now().Before(deadline) || round > 2000 {
					break
				}
			}
		}(gi, g)
	}
	close(start)
	wg.Wait()
	e.finish()
}

func runC12(c C12Case) (out core.Outcome) {
	cls := core.NewClassSet()
	defer func() { out.Classes = cls.List() }()
	c12Capture()
	if c12Log.f == nil {
		return core.Outcome{Inconclusive: "cannot capture stderr"}
	}
	_ = c12NewOutput() // drop anything left over
	var wg sync.WaitGroup
	for _, p := range c.Progs {
		cls.Add("target:%s", p.Target)
		for i := range p.Gs {
			for j := i + 1; j < len(p.Gs); j++ {
				for _, a := range p.Gs[i].Ops {
					for _, b := range p.Gs[j].Ops {
						if c12Mutating[a] || c12Mutating[b] {
							x, y := a, b
							if x > y {
								x, y = y, x
							}
							cls.Add("pair:%s:%s~%s", p.Target, x, y)
							out.NonTrivial = true
						}
					}
				}
			}
		}
		wg.Add(1)
		go func(p C12Prog) {
			defer wg.Done()
			runC12Prog(p)
		}(p)
	}
	wg.Wait()
	time.Sleep(30 * time.Millisecond) // let read loops and senders of the closed channels end
	reports := parseRaceReports(c12NewOutput())
	known := core.KnownSigs("C12")
	for _, r := range reports {
		if !r.ours {
			out.Inconclusive = "race report without any go-netty frame (harness bug?):\n" + r.text
			return
		}
		if known[r.sig] {
			cls.Add("known-race-seen")
			continue
		}
		if c12Log.orig != nil {
			fmt.Fprintln(c12Log.orig, r.text)
		}
		out.Violation = core.Viol(r.sig, "the race detector reported unsynchronised conflicting accesses:%s", firstLines(r.text, 14))
		return
	}
	if len(reports) > 0 {
		// only listed races: report one of them so that the driver prints KNOWN-FINDING
		out.Violation = core.Viol(reports[0].sig, "listed race: %s", firstLines(reports[0].text, 8))
	}
	return
}

func firstLines(s string, n int) string {
	lines := strings.Split(s, "\n")
	if len(lines) > n {
		lines = lines[:n]
	}
	return strings.Join(lines, "\n")
}

func TestC12(t *testing.T) {
	if os.Getenv("VERIF_MODE") != "replay" && !raceEnabled {
		t.Skip("C12 needs a -race build")
	}
	core.Main(t, core.Prop[C12Case]{
		ID:   "C12",
		Gen:  genC12,
		Run:  runC12,
		Enum: enumC12,
		Summary: func(c C12Case) interface{} {
			if len(c.Progs) > 2 {
				return map[string]interface{}{"programs": len(c.Progs), "first": c.Progs[:2]}
			}
			return c
		},
	})
}
