package props

import (
	"bytes"
	"fmt"
	"math"
	"math/bits"
	"runtime"
	"sync"
	"testing"
	"time"
	"unsafe"

	"github.com/go-netty/go-netty/utils/pool"
	"github.com/go-netty/go-netty/utils/pool/pbuffer"
	"github.com/go-netty/go-netty/utils/pool/pbytes"
	"pgregory.net/rapid"

	"verif/harness/core"
)

// C19 — buffer pool: capacity and exclusive ownership for every Get/Put history.

type C19Op struct {
	Op string `json:"op"` // get | getdrop (keeps the slice, drops the pointer Get returned) | gc | put | putf | math
	N  int    `json:"n"`  // get: requested size; put: index into held list; putf: capacity; math: argument
	L  int    `json:"l"`  // putf: length of the foreign slice (<= capacity)
}

type C19Case struct {
	Kind    string    `json:"kind"`    // bytes | buffer
	Max     int       `json:"max"`     // pool maximum (65536 = DefaultPool configuration)
	Workers [][]C19Op `json:"workers"` // one list = sequential (GOMAXPROCS 1); several = concurrent
}

// 65536 is the configuration of the package-level DefaultPool used by the channel.
// The global DefaultPool itself is never used: its content would leak between cases.
var c19Maxes = []int{65536, 65536, 65536, 1, 2, 10, 63, 64, 65, 1000, 4096, 100000}

func c19Size(t *rapid.T, max int, label string) int {
	// step of the pool: ceilPow2(ceilPow2(max)/64) (>=1)
	step := 1
	for step*64 < max {
		step <<= 1
	}
	switch rapid.IntRange(0, 9).Draw(t, label+"kind") {
	case 0:
		return rapid.IntRange(0, 4).Draw(t, label)
	case 1, 2, 3: // k*step + {-1,0,1}
		k := rapid.IntRange(0, 66).Draw(t, label+"k")
		return imax(0, k*step+rapid.IntRange(-1, 1).Draw(t, label+"d"))
	case 4, 5, 6: // 2^k + {-1,0,1,2}
		k := rapid.IntRange(0, 17).Draw(t, label+"p")
		return imax(0, (1<<k)+rapid.IntRange(-1, 2).Draw(t, label+"d"))
	case 7:
		return rapid.IntRange(0, 2*max+2).Draw(t, label)
	default:
		return rapid.IntRange(0, (1<<17)+2).Draw(t, label)
	}
}

func imax(a, b int) int {
	if a > b {
		return a
	}
	return b
}

func c19GenOps(t *rapid.T, max int, n int, allowMath bool) []C19Op {
	return rapid.SliceOfN(rapid.Custom(func(t *rapid.T) C19Op {
		var op C19Op
		k := rapid.IntRange(0, 10).Draw(t, "opk")
		switch {
		case k <= 3:
			op = C19Op{Op: "get", N: c19Size(t, max, "n")}
			if allowMath { // sequential histories only
				switch rapid.IntRange(0, 24).Draw(t, "getk") {
				case 0, 1, 2:
					// buf := *pool.Get(n): the caller keeps the slice and lets go of the pointer (what channel.go does)
					op.Op = "getdrop"
				case 3:
					op = C19Op{Op: "gc"}
				}
			}
		case k <= 6:
			op = C19Op{Op: "put", N: rapid.IntRange(0, 7).Draw(t, "idx")}
		case k <= 9 || !allowMath:
			c := c19Size(t, max, "cap")
			op = C19Op{Op: "putf", N: c, L: rapid.IntRange(0, c).Draw(t, "len")}
		default:
			var n int
			switch rapid.IntRange(0, 3).Draw(t, "mk") {
			case 0:
				n = rapid.IntRange(0, 1<<21).Draw(t, "mn")
			case 1:
				n = (1 << rapid.IntRange(0, 62).Draw(t, "mp")) + rapid.IntRange(-2, 2).Draw(t, "md")
			case 2:
				n = math.MaxInt - rapid.IntRange(0, 4).Draw(t, "mm")
			default:
				n = rapid.IntRange(0, math.MaxInt).Draw(t, "mn")
			}
			if n < 0 {
				n = 0
			}
			op = C19Op{Op: "math", N: n}
		}
		return op
	}), 1, n).Draw(t, "ops")
}

func genC19(t *rapid.T) C19Case {
	c := C19Case{Kind: rapid.SampledFrom([]string{"bytes", "bytes", "buffer"}).Draw(t, "kind")}
	c.Max = rapid.SampledFrom(c19Maxes).Draw(t, "max")
	nw := 1
	if rapid.IntRange(0, 19).Draw(t, "conc") == 0 {
		nw = rapid.IntRange(2, 4).Draw(t, "workers")
	}
	maxOps := 24
	if core.Thorough() {
		maxOps = 60
	}
	for w := 0; w < nw; w++ {
		c.Workers = append(c.Workers, c19GenOps(t, c.Max, maxOps, nw == 1))
	}
	return c
}

// pool adapters -------------------------------------------------------------

type c19Buf struct {
	bp    *[]byte
	bb    *bytes.Buffer
	id    uintptr
	tag   byte
	wrote int
}

func (b *c19Buf) capacity() int {
	if b.bp != nil {
		return cap(*b.bp)
	}
	return b.bb.Cap()
}

// full returns the whole capacity as a slice (for tagging).
func (b *c19Buf) full() []byte {
	if b.bp != nil {
		return (*b.bp)[:cap(*b.bp)]
	}
	bs := b.bb.Bytes()
	return bs[:cap(bs)]
}

func identityOf(b *c19Buf) uintptr {
	f := b.full()
	if cap(f) > 0 {
		return uintptr(unsafe.Pointer(unsafe.SliceData(f)))
	}
	if b.bp != nil {
		return uintptr(unsafe.Pointer(b.bp))
	}
	return uintptr(unsafe.Pointer(b.bb))
}

type c19Pool interface {
	get(n int) *c19Buf
	put(b *c19Buf)
	foreign(capacity, length int) *c19Buf
}

type c19Bytes struct{ p *pbytes.Pool }

func (p c19Bytes) get(n int) *c19Buf {
	bp := p.p.Get(n)
	if bp == nil {
		return nil
	}
	return &c19Buf{bp: bp}
}
func (p c19Bytes) put(b *c19Buf) { p.p.Put(b.bp) }
func (p c19Bytes) foreign(capacity, length int) *c19Buf {
	s := make([]byte, length, capacity)
	return &c19Buf{bp: &s}
}

type c19Buffer struct{ p *pbuffer.Pool }

func (p c19Buffer) get(n int) *c19Buf {
	bb := p.p.Get(n)
	if bb == nil {
		return nil
	}
	return &c19Buf{bb: bb}
}
func (p c19Buffer) put(b *c19Buf) { p.p.Put(b.bb) }
func (p c19Buffer) foreign(capacity, length int) *c19Buf {
	return &c19Buf{bb: bytes.NewBuffer(make([]byte, length, capacity))}
}

// model ---------------------------------------------------------------------

type c19Model struct {
	mu     sync.Mutex
	state  map[uintptr]int // 1 held, 2 pooled
	keep   []*c19Buf       // keeps every buffer alive so identities are never reused by the allocator
	reused int
	viol   *core.Violation
}

const (
	c19Held   = 1
	c19Pooled = 2
)

func (m *c19Model) fail(v *core.Violation) {
	if m.viol == nil {
		m.viol = v
	}
}

func refCeil(n int) (int, bool) { // (value, panics)
	if n <= 2 {
		return n, false
	}
	if n > 1<<62 {
		return 0, true
	}
	return 1 << bits.Len(uint(n-1)), false
}

func refFloor(n int) int {
	if n <= 2 {
		return n
	}
	return 1 << (bits.Len(uint(n)) - 1)
}

func callCeil(n int) (v int, panicked bool) {
	defer func() {
		if recover() != nil {
			panicked = true
		}
	}()
	return pool.VerifCeilToPowerOfTwo(n), false
}

func c19Math(n int) *core.Violation {
	wv, wp := refCeil(n)
	gv, gp := callCeil(n)
	if wp != gp || (!wp && wv != gv) {
		return core.Viol("C19/pmath-ceil", "CeilToPowerOfTwo(%d) = %d (panic=%v), reference %d (panic=%v)", n, gv, gp, wv, wp)
	}
	if g, w := pool.VerifFloorToPowerOfTwo(n), refFloor(n); g != w {
		return core.Viol("C19/pmath-floor", "FloorToPowerOfTwo(%d) = %d, reference %d", n, g, w)
	}
	if n >= 1 {
		if g, w := pool.VerifIsPowerOfTwo(n), bits.OnesCount(uint(n)) == 1; g != w {
			return core.Viol("C19/pmath-ispow2", "IsPowerOfTwo(%d) = %v, reference %v", n, g, w)
		}
	}
	if n >= 1 && n <= 1<<40 {
		// LogarithmicRange(n, 8n) must enumerate exactly the powers of two in [n, 8n]
		var got []int
		pool.VerifLogarithmicRange(n, 8*n, func(v int) { got = append(got, v) })
		var want []int
		for v, _ := refCeil(n); v <= 8*n; v <<= 1 {
			want = append(want, v)
		}
		if fmt.Sprint(got) != fmt.Sprint(want) {
			return core.Viol("C19/pmath-range", "LogarithmicRange(%d,%d) = %v, reference %v", n, 8*n, got, want)
		}
	}
	return nil
}

func runC19(c C19Case) (out core.Outcome) {
	cls := core.NewClassSet()
	defer func() { out.Classes = cls.List() }()

	var p c19Pool
	if c.Max <= 0 {
		return core.Outcome{Inconclusive: "bad case: max<=0"}
	}
	if c.Kind == "bytes" {
		p = c19Bytes{pbytes.New(c.Max)}
	} else {
		p = c19Buffer{pbuffer.New(c.Max)}
	}
	cls.Add("kind:%s", c.Kind)
	cls.Add("max:%d", c.Max)
	max := c.Max

	m := &c19Model{state: map[uintptr]int{}}
	concurrent := len(c.Workers) > 1
	if concurrent {
		cls.Add("concurrent")
	} else {
		cls.Add("sequential")
	}

	worker := func(w int, ops []C19Op) {
		var held []*c19Buf
		verify := func(b *c19Buf) {
			if b.bb != nil && b.bb.Len() != b.wrote {
				m.mu.Lock()
				m.fail(core.Viol("C19/held-buffer-overwritten", "worker %d: a held bytes.Buffer holding %d bytes has length %d now: somebody else used or reset it", w, b.wrote, b.bb.Len()))
				m.mu.Unlock()
				return
			}
			for i, x := range b.full() {
				if x != b.tag {
					m.mu.Lock()
					m.fail(core.Viol("C19/held-buffer-overwritten", "worker %d: held buffer (cap %d) byte %d changed from %#x to %#x while held", w, b.capacity(), i, b.tag, x))
					m.mu.Unlock()
					return
				}
			}
		}
		for i, op := range ops {
			switch op.Op {
			case "gc":
				// a collection, and a moment for whatever the collector hands to the finalizer goroutine
				runtime.GC()
				time.Sleep(2 * time.Millisecond)
				cls.Add("gc-between-operations")
			case "get", "getdrop":
				b := p.get(op.N)
				if op.Op == "getdrop" && b != nil && b.bp != nil {
					s := *b.bp
					b.bp = &s // the pointer Get returned is unreachable from here on; the memory is still ours
					cls.Add("pointer-dropped-slice-kept")
				}
				m.mu.Lock()
				if b == nil {
					m.fail(core.Viol("C19/get-nil", "Get(%d) returned nil", op.N))
					m.mu.Unlock()
					return
				}
				if b.capacity() < op.N {
					m.fail(core.Viol("C19/get-capacity-below-request", "Get(%d) returned capacity %d", op.N, b.capacity()))
				}
				b.id = identityOf(b)
				switch m.state[b.id] {
				case c19Held:
					m.fail(core.Viol("C19/get-returned-held-buffer", "Get(%d) returned a buffer (cap %d) that is still held / was already handed out since its last Put", op.N, b.capacity()))
				case c19Pooled:
					m.reused++
				}
				m.state[b.id] = c19Held
				m.keep = append(m.keep, b)
				m.mu.Unlock()
				if op.N > max {
					cls.Add("get-above-max")
				}
				b.tag = byte(1 + (w*61+i)%255)
				f := b.full()
				for j := range f {
					f[j] = b.tag
				}
				if b.bb != nil {
					// use the buffer as a buffer: its length belongs to the holder as well
					b.bb.Reset()
					b.wrote = imin(b.bb.Cap(), 1+(w+i)%17)
					b.bb.Write(f[:b.wrote])
				}
				held = append(held, b)
			case "put":
				if len(held) == 0 {
					continue
				}
				k := op.N % len(held)
				b := held[k]
				held = append(held[:k], held[k+1:]...)
				verify(b)
				if b.bb != nil && b.wrote > 0 && (w+i)%3 == 0 {
					// the holder has consumed part of what it wrote (Next/ReadByte) and puts the buffer back as it is
					b.bb.Next(1 + (w+i)%b.wrote)
					cls.Add("buffer-put-partly-read")
				}
				m.mu.Lock()
				m.state[b.id] = c19Pooled
				m.mu.Unlock()
				p.put(b)
				if b.bb != nil && (w+i)%4 == 0 {
					// the two pool packages do not share memory: what was put into this buffer pool must not come out of the
					// byte-slice DefaultPool (the harness takes from it and never puts back)
					for _, n := range []int{b.bb.Cap(), 65536} {
						if g := pbytes.Get(n); g != nil && cap(*g) > 0 {
							id := uintptr(unsafe.Pointer(unsafe.SliceData((*g)[:cap(*g)])))
							m.mu.Lock()
							if st := m.state[id]; st != 0 {
								m.fail(core.Viol("C19/buffer-memory-in-byte-pool", "worker %d: pbytes.Get(%d) on the byte-slice DefaultPool returned memory (cap %d) that belongs to a buffer of the buffer pool (state %d): one Put, two owners", w, n, cap(*g), st))
							}
							m.keep = append(m.keep, &c19Buf{bp: g})
							m.mu.Unlock()
						}
					}
				}
			case "putf":
				b := p.foreign(op.N, op.L)
				b.id = identityOf(b)
				m.mu.Lock()
				m.state[b.id] = c19Pooled
				m.keep = append(m.keep, b)
				m.mu.Unlock()
				if op.N&(op.N-1) != 0 {
					cls.Add("foreign-put-offclass")
				} else {
					cls.Add("foreign-put-pow2")
				}
				p.put(b)
			case "math": // checks op.L+1 consecutive arguments starting at op.N
				for n := op.N; n >= op.N && n <= op.N+op.L; n++ {
					if v := c19Math(n); v != nil {
						m.mu.Lock()
						m.fail(v)
						m.mu.Unlock()
						break
					}
				}
				cls.Add("math")
			}
			if concurrent {
				runtime.Gosched()
			}
		}
		for _, b := range held {
			verify(b)
		}
	}

	if concurrent {
		// real parallelism for this variant (sequential cases run on one P so
		// that a Put is really handed to the next matching Get)
		prev := runtime.GOMAXPROCS(4)
		defer runtime.GOMAXPROCS(prev)
		var wg sync.WaitGroup
		for w, ops := range c.Workers {
			wg.Add(1)
			go func(w int, ops []C19Op) {
				defer wg.Done()
				worker(w, ops)
			}(w, ops)
		}
		wg.Wait()
	} else {
		worker(0, c.Workers[0])
	}

	if m.reused > 0 {
		cls.Add("reuse")
		out.NonTrivial = true
	}
	out.Violation = m.viol
	if v := m.viol; v != nil && v.Sig == "C19/get-capacity-below-request" {
		// refine: was an off-class foreign Put involved? (signature of the listed finding)
		for _, ops := range c.Workers {
			for _, op := range ops {
				if op.Op == "putf" && op.N&(op.N-1) != 0 {
					v.Sig = "C19/put-offclass-cap"
				}
			}
		}
	}
	return out
}

func TestC19(t *testing.T) {
	prev := runtime.GOMAXPROCS(1)
	defer runtime.GOMAXPROCS(prev)
	core.Main(t, core.Prop[C19Case]{
		ID:   "C19",
		Rule: "rapid-generated Get/Put/foreign-Put histories (sizes concentrated on k*step±1 and 2^k±1) on default and custom byte/buffer pools, sequential under GOMAXPROCS(1) or 2-4 concurrent workers; non-trivial = some Get was served with a previously Put buffer (identity match); distinct by hash of the case",
		Gen:  genC19,
		Run:  runC19,
		Enum: func(emit func(C19Case)) {
			// size-class arithmetic against math/bits, exhaustively below 2^20 (2^24 thorough)
			top := 1 << 20
			if core.Thorough() {
				top = 1 << 24
			}
			for n := 0; n < top; n += 1 << 14 {
				emit(C19Case{Kind: "bytes", Max: 64, Workers: [][]C19Op{{{Op: "math", N: n, L: 1<<14 - 1}}}})
			}
			// and around every power of two up to the platform limit
			for k := 20; k <= 62; k++ {
				emit(C19Case{Kind: "bytes", Max: 64, Workers: [][]C19Op{{{Op: "math", N: 1<<k - 64, L: 128}}}})
			}
			emit(C19Case{Kind: "bytes", Max: 64, Workers: [][]C19Op{{{Op: "math", N: math.MaxInt - 128, L: 128}}}})
		},
	})
}
