package props

import (
	"bytes"
	"context"
	"errors"
	"fmt"
	"io"
	"net"
	"os"
	"runtime"
	"sort"
	"strings"
	"sync"
	"time"

	netty "github.com/go-netty/go-netty"
	"github.com/go-netty/go-netty/utils/pool/pbytes"
	"pgregory.net/rapid"

	"verif/harness/core"
	"verif/harness/mock"
	"verif/harness/sched"
)

// E1: scenarios on one real channel under the cooperative scheduler.

type E1Op struct {
	Op      string `json:"op"` // write1 writev ctxwrite1 ctxwritev writerwrite readfrom write | close cancelparent cancelctx feed peereof failread trigger closeall scribble
	Sizes   []int  `json:"sizes,omitempty"`
	Ctx     string `json:"ctx,omitempty"`     // "" background | cancelled | live (cancelled by a cancelctx op of another task)
	Err     string `json:"err,omitempty"`     // close argument: nil | sentinel | wrapped | eof | neterr
	Carrier string `json:"carrier,omitempty"` // write: message carrier
	Poison  bool   `json:"poison,omitempty"`  // overwrite the caller's buffer right after the call returns
	N       int    `json:"n,omitempty"`
	Text    string `json:"text,omitempty"`    // feed: the bytes to deliver (instead of N filler bytes)
	Empty   bool   `json:"empty,omitempty"`   // readfrom: the source returns (0, nil) before every fragment
	EOFData bool   `json:"eofdata,omitempty"` // readfrom: the source returns its last fragment together with io.EOF
	Pausing bool   `json:"pausing,omitempty"` // readfrom: every Read of the source is a yield point (a source may block)
}

type E1Task struct {
	Role  string `json:"role"` // writer | closer | canceller | feeder | scribbler
	After []int  `json:"after,omitempty"`
	Ops   []E1Op `json:"ops"`
}

// E1Dir is one element of a directed schedule prefix: run a task until it is parked at Label.
type E1Dir struct {
	Task   int    `json:"task"`   // index into Tasks; -1 = the current sender task; -2 = the read loop
	Label  string `json:"label"`  // hook / yield label to reach
	Repeat int    `json:"repeat"` // pass the label this many times first
}

type E1Case struct {
	Kind           string       `json:"kind"` // sync | qblock | qnonblock
	Queue          int          `json:"queue,omitempty"`
	Buffered       bool         `json:"buffered,omitempty"`
	Split          bool         `json:"split,omitempty"`
	Pipe           string       `json:"pipe,omitempty"` // "" | probe | codec names (C09)
	Tasks          []E1Task     `json:"tasks"`
	Prefix         []E1Dir      `json:"prefix,omitempty"`
	Schedule       []uint8      `json:"schedule,omitempty"`
	Faults         []mock.Fault `json:"faults,omitempty"`
	Stall          string       `json:"stall,omitempty"`  // "never": sender tasks are not scheduled before the final sweep
	Futile         int          `json:"futile,omitempty"` // futile Close polls (real 100 ms sleeps) the schedule may take
	NoSweep        bool         `json:"nosweep,omitempty"`
	Probe          bool         `json:"probe,omitempty"`          // C18: force a blocked writer on at the terminal state
	C05            *C05Spec     `json:"c05,omitempty"`            // lifecycle probe configuration
	Excluded       int          `json:"excluded,omitempty"`       // generator: items replaced because they belong to a listed finding
	HTTP           *C06HTTP     `json:"http,omitempty"`           // C06: the HTTP codec's "Connection: close" path
	Stress         int          `json:"stress,omitempty"`         // C02: > 0 = rounds of a real-goroutine stress (no scheduler)
	AnyCloseReturn bool         `json:"anyclosereturn,omitempty"` // C11: "after Close" begins when a user's Close call has returned, even if nothing was closed
	LongWaitSec    int          `json:"longwait_s,omitempty"`     // C18 probe: the waiting writer is watched for this many seconds of real time
	Swallow        bool         `json:"swallow,omitempty"`        // the pipeline's exception handler logs and does not forward (the tail handler never sees an exception)
	WrapRead       bool         `json:"wrapread,omitempty"`       // the decoding handler wraps a transport read error with %w before raising it (as utils.Assert does)
}

type e1Call struct {
	ID      int
	Task    int
	Idx     int
	Op      E1Op
	Begin   int
	End     int
	N       int64
	Err     error
	Panic   interface{}
	Stack   string
	Payload []byte // snapshot at call time
	// state observed when the call passed enqueue.before (queued channels)
	SawEnqueue   bool
	FullThen     bool
	CtxDoneThen  bool
	ChanDoneThen bool
	Parked       bool // the call was parked (disabled) at enqueue.before at some decision
	Forced       bool // the terminal probe pushed the call past a full queue
	ActiveAfter  bool // close: IsActive() right after Close returned
	CtxErrAfter  bool // close: Context().Err() != nil right after Close returned
	Who          string
	TaskPtr      *sched.Task
	FullAtBegin  bool // queue full when the call began
	OpenAtBegin  bool // channel open when the call began
}

func (c *e1Call) ok() bool { return c.End != 0 && c.Err == nil && c.Panic == nil }

type e1TaskData struct {
	role string
	idx  int
	ctx  context.Context
	call *e1Call
}

type e1Run struct {
	c                  E1Case
	s                  *sched.Sched
	tr                 *mock.Transport
	ex                 *mock.SchedExec
	ch                 netty.Channel
	pl                 netty.Pipeline
	parent             context.Context
	pcancel            context.CancelFunc
	calls              []*e1Call
	byID               map[int]*e1Call
	tasks              []*sched.Task
	live               map[int]context.CancelFunc // call id -> cancel of its live context
	liveCtx            []context.CancelFunc
	hooks              map[string]int
	futile             int
	release            bool
	cls                *core.ClassSet
	maxQ               int
	lockContended      bool
	incon              string
	closeCalls         []*e1Call
	bound              int // max over steps of (successful calls whose payload the transport has not taken yet)
	wantBound          bool
	arena              []byte // C09: the application's record buffer ("arena" carrier)
	arenaOff           int
	pollsWithSender    int // futile Close polls taken while a sender action existed
	pollsNoSender      int // futile Close polls taken while none existed
	noDrain            bool
	inbound            int
	closeOverlapSender bool
	closerSawSenderAt  map[string]bool
	inactive           []error
	inactiveSeq        []int
	exceptions         []error
	mu                 sync.Mutex
	serveReturned      int
	holderErr          error
	winners            []e1Winner
	c05                *c05Probe
	holder             netty.ChannelHolder
	idBase             int
	enqOrder           []int // task ids in the order of their low-level writes reaching the channel
	cleanup            []context.CancelFunc
}

// afterClosed in E1Task.After gates a task until the Close call that took effect has returned.
const afterClosed = -10

// closeReturned: inactive was delivered (the last step of Close) and no task is inside Close any more.
// virtSlept reports how long Close's poll loop has "slept" in the no-sleep stage (0 otherwise); see vclock_nosleep_test.go.
var (
	virtSlept      = func() time.Duration { return 0 }
	virtSleptReset = func() {}
)

// graceExhausted: a bounded-wait Close waited out its whole grace period (ten polls of 100 ms on this tree)
// because the schedule kept the sender stalled; C06 exempts that case.
func graceExhausted() bool { return virtSlept() >= time.Second-time.Millisecond }

// drawFutile draws the number of futile Close polls a schedule may take. Each costs a real 100 ms unless the
// no-sleep stage is running (VERIF_NOSLEEP=1, clock-redirected build), where the whole grace period of a
// bounded-wait channel (10 polls) and more can be explored.
func drawFutile(t *rapid.T, base []int) int {
	if os.Getenv("VERIF_NOSLEEP") == "1" {
		return rapid.SampledFrom([]int{0, 0, 1, 2, 3, 5, 9, 10, 11, 12}).Draw(t, "futile")
	}
	return rapid.SampledFrom(base).Draw(t, "futile")
}

func (r *e1Run) closeReturned() bool {
	if len(r.inactive) == 0 {
		// no inactive event (yet): a user Close call that has returned counts all the same - whatever it did
		if r.c.AnyCloseReturn {
			r.mu.Lock()
			defer r.mu.Unlock()
			for _, cc := range r.closeCalls {
				if cc.End != 0 && cc.Who == "task" {
					return true
				}
			}
		}
		return false
	}
	for _, t := range r.s.Parked() {
		if l := t.Label(); strings.HasPrefix(l, "close.") || l == "t.close" {
			return false
		}
	}
	return true
}

var e1cur *e1Run

func init() {
	netty.VerifHook = func(ch netty.Channel, where string) {
		if r := e1cur; r != nil {
			r.hook(ch, where)
		}
	}
}

var e1Sentinel = errors.New("verif: sentinel close error")

func closeErrOf(kind string, id int) error {
	switch kind {
	case "nil", "":
		return nil
	case "wrapped":
		return fmt.Errorf("verif: wrapped #%d: %w", id, e1Sentinel)
	case "eof":
		return io.EOF
	case "neterr":
		return &mock.NetErr{Msg: fmt.Sprintf("verif: close net error #%d", id)}
	case "wrapped-neterr":
		return fmt.Errorf("verif: upstream #%d: %w", id, &mock.NetErr{Msg: "verif: wrapped close net error"})
	case "timeout":
		return &mock.NetErr{Msg: fmt.Sprintf("verif: close timeout #%d", id), TO: true}
	case "wrapped-errclosed":
		// e.g. a relay that closes this channel with the error of its other, already closed connection
		return fmt.Errorf("verif: backend #%d: %w", id, net.ErrClosed)
	case "deadline":
		return context.DeadlineExceeded
	case "os-deadline":
		return fmt.Errorf("verif: write #%d: %w", id, os.ErrDeadlineExceeded)
	}
	return fmt.Errorf("verif: close error #%d", id)
}

// closeErrKinds: every kind of value a caller may hand to Close ("whatever error value - including nil - Close was given").
var closeErrKinds = []string{"nil", "nil", "sentinel", "wrapped", "eof", "neterr", "wrapped-neterr", "timeout", "deadline", "os-deadline", "wrapped-errclosed"}

func (r *e1Run) senders() []*sched.Task {
	var out []*sched.Task
	for i, t := range r.ex.TaskList() {
		if i > 0 {
			out = append(out, t)
		}
	}
	return out
}

// maxSenderRounds is the largest number of times one sender task came round to the top of its loop.
func (r *e1Run) maxSenderRounds() int {
	n := 0
	for _, s := range r.senders() {
		if v := s.Visits["send.top"]; v > n {
			n = v
		}
	}
	return n
}

func (r *e1Run) reader() *sched.Task {
	if ts := r.ex.TaskList(); len(ts) > 0 {
		return ts[0]
	}
	return nil
}

func (r *e1Run) hook(ch netty.Channel, where string) {
	if ch != r.ch {
		return
	}
	t := r.s.Current()
	if t == nil {
		return
	}
	r.mu.Lock() // a task pushed on by the terminal probe (C18) runs beside the scheduled one
	r.hooks[where]++
	if where == "close.won" {
		r.winners = append(r.winners, e1Winner{task: t, seq: r.s.Seq()})
	}
	r.mu.Unlock()
	td, _ := t.Data.(*e1TaskData)
	var pred func() bool
	switch where {
	case "write.closing":
		pred = func() bool { return ch.Context().Err() != nil }
	case "sync.lock":
		pred = func() bool {
			st, _ := netty.VerifState(ch)
			if !st.LockFree {
				r.lockContended = true
			}
			return st.LockFree
		}
	case "enqueue.before":
		pred = func() bool {
			st, _ := netty.VerifState(ch)
			if !st.UntilWrite {
				return true
			}
			ok := st.QueueLen < st.QueueCap || ch.Context().Err() != nil || (td != nil && td.ctx != nil && td.ctx.Err() != nil)
			if !ok && td != nil && td.call != nil {
				td.call.Parked = true
			}
			return ok
		}
	case "close.wait":
		// the closer may proceed when the sender is quiescent (idle and nothing queued);
		// polling earlier is "futile" (a real 100 ms sleep) and budgeted per case
		pred = func() bool {
			st, _ := netty.VerifState(ch)
			return (!st.Running && st.QueueLen == 0) || r.futile > 0
		}
	case "enqueue.after":
		r.mu.Lock()
		r.enqOrder = append(r.enqOrder, t.ID)
		r.mu.Unlock()
		for _, st := range r.senders() {
			switch st.Label() {
			case "send.beforeFlush", "t.flush", "send.beforeRelease", "send.afterRelease":
				r.cls.Add("enqueue-in-release-window")
			}
		}
	}
	if strings.HasPrefix(where, "close.") {
		r.mu.Lock()
		for _, st := range r.senders() {
			if !st.Done() {
				r.closeOverlapSender = true
				if r.closerSawSenderAt == nil {
					r.closerSawSenderAt = map[string]bool{}
				}
				r.closerSawSenderAt[st.Label()] = true
			}
		}
		r.mu.Unlock()
	}
	r.s.Yield(where, pred)
	switch where {
	case "enqueue.before":
		if td != nil && td.call != nil {
			st, _ := netty.VerifState(ch)
			td.call.SawEnqueue = true
			td.call.FullThen = st.QueueLen >= st.QueueCap
			td.call.ChanDoneThen = ch.Context().Err() != nil
			td.call.CtxDoneThen = td.ctx != nil && td.ctx.Err() != nil
		}
	case "close.wait":
		if st, _ := netty.VerifState(ch); st.Running || st.QueueLen > 0 {
			r.futile--
			r.cls.Add("futile-close-poll")
			live := false
			for _, st := range r.senders() {
				if !st.Done() {
					live = true
				}
			}
			r.mu.Lock()
			if live {
				r.pollsWithSender++
			} else {
				r.pollsNoSender++ // Close is waiting although nobody is sending: whatever is queued is stranded
			}
			r.mu.Unlock()
		}
	}
}

// fillPayload writes the self-describing payload of call id into dst.
// With idBase != 0 (message-level cases) the id byte is idBase+id and the rest is printable ASCII,
// so that payloads never contain a delimiter.
func fillPayload(dst []byte, id int, idBase int) {
	x := uint32(id)*2246822519 + 374761393
	for i := range dst {
		x = x*1664525 + 1013904223
		dst[i] = byte(x >> 24)
		if idBase != 0 {
			dst[i] = 0x20 + dst[i]%0x5f
		}
	}
	if len(dst) > 0 {
		dst[0] = byte(idBase + id)
	}
}

func (r *e1Run) newCall(task, idx int, op E1Op) *e1Call {
	r.mu.Lock()
	defer r.mu.Unlock()
	c := &e1Call{ID: len(r.calls) + 1, Task: task, Idx: idx, Op: op}
	r.calls = append(r.calls, c)
	r.byID[c.ID] = c
	return c
}

func isWriteOp(op string) bool {
	switch op {
	case "write1", "writev", "ctxwrite1", "ctxwritev", "writerwrite", "readfrom", "write":
		return true
	}
	return false
}

// runTask executes the operation list of harness task ti.
func (r *e1Run) runTask(ti int, spec E1Task, td *e1TaskData) {
	maxTotal := 0
	for _, op := range spec.Ops {
		tot := 0
		for _, n := range op.Sizes {
			tot += n
		}
		maxTotal = imax(maxTotal, tot)
	}
	backing := make([]byte, maxTotal) // one buffer reused for every call of this task
	for oi, op := range spec.Ops {
		switch {
		case isWriteOp(op.Op):
			r.doWrite(ti, oi, op, td, backing)
		case op.Op == "close":
			call := r.newCall(ti, oi, op)
			r.closeCalls = append(r.closeCalls, call)
			td.call = call
			r.s.Yield("call.begin", nil)
			call.Begin = r.s.Seq()
			call.Err = closeErrOf(op.Err, call.ID) // the argument
			func() {
				defer func() {
					if p := recover(); p != nil {
						call.Panic = p
					}
				}()
				r.ch.Close(call.Err)
			}()
			call.ActiveAfter = r.ch.IsActive()
			call.CtxErrAfter = r.ch.Context().Err() != nil
			call.End = r.s.Seq()
			call.TaskPtr = r.tasks[ti]
			call.Who = "task"
		case op.Op == "cancelparent":
			r.s.Yield("call.begin", nil)
			r.pcancel()
		case op.Op == "cancelctx":
			r.s.Yield("call.begin", nil)
			for _, c := range r.liveCtx {
				c()
			}
		case op.Op == "feed":
			r.s.Yield("call.begin", nil)
			if op.Text != "" {
				r.tr.Feed([]byte(op.Text))
				break
			}
			n := imax(1, op.N)
			b := make([]byte, n)
			for i := range b {
				b[i] = byte(oi + i)
			}
			r.tr.Feed(b)
		case op.Op == "peereof":
			r.s.Yield("call.begin", nil)
			r.tr.PeerClose()
		case op.Op == "failread":
			r.s.Yield("call.begin", nil)
			r.tr.FailRead(mock.MakeErr(op.Err))
		case op.Op == "trigger":
			r.s.Yield("call.begin", nil)
			func() {
				defer func() {
					if p := recover(); p != nil {
						r.incon = fmt.Sprintf("Trigger panicked: %v", p)
					}
				}()
				r.ch.Trigger(fmt.Sprintf("event-%d-%d", ti, oi))
			}()
		case op.Op == "closeall":
			r.s.Yield("call.begin", nil)
			if r.holder != nil {
				r.holderErr = closeErrOf(op.Err, 900+ti)
				r.holder.CloseAll(r.holderErr)
			}
		case op.Op == "scribble":
			// a second, well-behaved user of the byte pool
			n := imax(0, op.N)
			if st, ok := netty.VerifState(r.ch); ok && st.Queued && (st.QueueLen > 0 || st.Running) {
				r.cls.Add("scribbled-while-pending")
			}
			bp := pbytes.Get(n)
			b := (*bp)[:cap(*bp)]
			for i := range b {
				b[i] = 0xEE
			}
			r.s.Yield("scribble.hold", nil)
			for i := range b {
				b[i] = 0xEE
			}
			pbytes.Put(bp)
			r.s.Yield("scribble.put", nil)
		}
	}
}

type ctxWriter interface {
	CtxWrite1(ctx context.Context, p []byte) (int, error)
	CtxWritev(ctx context.Context, pv [][]byte) (int64, error)
}

func (r *e1Run) doWrite(ti, oi int, op E1Op, td *e1TaskData, backing []byte) {
	call := r.newCall(ti, oi, op)
	total := 0
	for _, n := range op.Sizes {
		total += n
	}
	buf := backing[:total]
	fillPayload(buf, call.ID, r.idBase)
	call.Payload = append([]byte{}, buf...)
	var segs [][]byte
	off := 0
	for _, n := range op.Sizes {
		segs = append(segs, buf[off:off+n:off+n])
		off += n
	}
	var ctx context.Context = context.Background()
	switch op.Ctx {
	case "cancelled":
		c, cancel := context.WithCancel(context.Background())
		cancel()
		ctx = c
	case "live":
		c, cancel := context.WithCancel(context.Background())
		r.liveCtx = append(r.liveCtx, cancel)
		ctx = c
	case "deadline":
		// a context with a (far) deadline that never expires during the case
		c, cancel := context.WithDeadline(context.Background(), time.Now().Add(time.Hour))
		r.cleanup = append(r.cleanup, cancel)
		ctx = c
	}
	var arenaMsg []byte
	if op.Op == "write" && op.Carrier == "arena" {
		// the record is laid out in the shared buffer now; the Write call comes after the yield below, so another
		// writer's record may already lie right behind this one
		r.mu.Lock()
		if r.arena == nil {
			r.arena = make([]byte, 1<<17)
		}
		if r.arenaOff+len(buf) <= len(r.arena) {
			arenaMsg = r.arena[r.arenaOff : r.arenaOff+len(buf)]
			r.arenaOff += len(buf)
			copy(arenaMsg, buf)
		} else {
			arenaMsg = append([]byte{}, buf...)
		}
		r.mu.Unlock()
	}
	td.ctx, td.call = ctx, call
	r.s.Yield("call.begin", nil)
	call.Begin = r.s.Seq()
	if st, ok := netty.VerifState(r.ch); ok {
		call.FullAtBegin = st.Queued && st.QueueLen >= st.QueueCap
		call.OpenAtBegin = !st.Closed
	}
	func() {
		defer func() {
			if p := recover(); p != nil {
				call.Panic = p
				b := make([]byte, 8<<10)
				call.Stack = string(b[:runtime.Stack(b, false)])
			}
		}()
		var first []byte
		if len(segs) > 0 {
			first = segs[0]
		}
		switch op.Op {
		case "write1":
			n, err := r.ch.Write1(first)
			call.N, call.Err = int64(n), err
		case "writerwrite":
			n, err := r.ch.Writer().Write(first)
			call.N, call.Err = int64(n), err
		case "ctxwrite1":
			n, err := r.ch.CtxWrite1(ctx, first)
			call.N, call.Err = int64(n), err
		case "writev":
			call.N, call.Err = r.ch.Writev(segs)
		case "ctxwritev":
			call.N, call.Err = r.ch.CtxWritev(ctx, segs)
		case "readfrom":
			src := &shortReader{data: append([]byte{}, buf...), step: imax(1, op.N), empty: op.Empty, eofData: op.EOFData}
			if op.Pausing {
				src.pause = func() { r.s.Yield("src.read", nil) }
			}
			call.N, call.Err = r.ch.ReadFrom(src)
		case "write":
			msg, _ := e1Message(op.Carrier, buf, call.ID)
			if op.Carrier == "arena" {
				msg = arenaMsg
			}
			call.Err = r.ch.Write(msg)
			call.N = int64(len(buf))
		}
	}()
	call.End = r.s.Seq()
	td.ctx = nil
	if op.Poison {
		if st, ok := netty.VerifState(r.ch); ok && st.Queued && (st.QueueLen > 0 || st.Running) && call.ok() {
			r.cls.Add("poisoned-while-pending")
		}
		for i := range buf {
			buf[i] = 0xDD
		}
	}
}

// e1Message wraps payload bytes into the carrier type for Channel.Write.
func e1Message(carrier string, p []byte, seed int) (interface{}, bool) {
	cp := append([]byte{}, p...)
	switch carrier {
	case "bb":
		k := len(cp) / 2
		return [][]byte{cp[:k], cp[k:]}, true
	case "buffer":
		return bytes.NewBuffer(cp), true
	case "breader":
		return bytes.NewReader(cp), true
	case "reader":
		return plainReader{bytes.NewReader(cp)}, false
	case "short":
		return &shortReader{data: cp, step: 1 + seed%700}, false
	case "wtN":
		return &wtMany{data: cp, step: imax(1, len(cp)/3)}, false
	case "string":
		return string(cp), true
	}
	return cp, true
}

func newE1(c E1Case, handlers ...netty.Handler) *e1Run {
	virtSleptReset()
	r := &e1Run{c: c, byID: map[int]*e1Call{}, hooks: map[string]int{}, futile: c.Futile, cls: core.NewClassSet()}
	r.s = sched.New(c.Schedule)
	r.tr = mock.NewTransport(r.s, c.Buffered, c.Faults)
	r.tr.SplitWrites = c.Split
	r.ex = &mock.SchedExec{S: r.s, SetUp: true}
	r.ex.OnTask = func(t *sched.Task) {
		role := "sender"
		if len(r.ex.Tasks) == 1 {
			role = "reader"
		}
		t.Data = &e1TaskData{role: role}
		if role == "sender" && c.Stall == "never" {
			t.Gate(func() bool { return r.release })
		}
	}
	r.parent, r.pcancel = context.WithCancel(context.Background())
	r.pl = netty.NewPipeline()
	var factory netty.ChannelFactory
	switch c.Kind {
	case "qblock":
		factory = netty.NewAsyncWriteChannel(imax(1, c.Queue), true)
	case "qnonblock":
		factory = netty.NewAsyncWriteChannel(imax(1, c.Queue), false)
	default:
		factory = netty.NewChannel()
	}
	r.ch = factory(1, r.parent, r.pl, r.tr, r.ex)
	if c.C05 != nil {
		r.holder = netty.NewChannelHolder(4)
		r.c05 = &c05Probe{r: r, spec: *c.C05}
		r.pl.AddLast(r.holder, r.c05)
	}
	for _, h := range handlers {
		r.pl.AddLast(h)
	}
	r.pl.AddLast(netty.InactiveHandlerFunc(func(ctx netty.InactiveContext, ex netty.Exception) {
		r.inactive = append(r.inactive, ex)
		r.inactiveSeq = append(r.inactiveSeq, r.s.Seq())
		ctx.HandleInactive(ex)
	}), netty.ExceptionHandlerFunc(func(ctx netty.ExceptionContext, ex netty.Exception) {
		r.exceptions = append(r.exceptions, ex)
		if !c.Swallow {
			ctx.HandleException(ex)
		}
	}))
	if !r.noDrain {
		// the inbound end of every pipeline: reads the transport like a codec does
		// (parks in the mock's Read while no data is available, raises on failure)
		r.pl.AddLast(netty.InboundHandlerFunc(func(ctx netty.InboundContext, m netty.Message) {
			if rd, ok := m.(io.Reader); ok {
				buf := make([]byte, 512)
				n, err := rd.Read(buf)
				r.inbound += n
				if err != nil {
					if c.WrapRead {
						panic(fmt.Errorf("verif: decoder: read failed: %w", err))
					}
					panic(err)
				}
			}
		}))
	}
	return r
}

// start serves the channel (set-up phase) and creates the harness tasks.
func (r *e1Run) start() error {
	e1cur = r
	if r.c.C05 != nil && r.c.C05.SchedSetup {
		// activation under the scheduler: ServeChannel runs on its own task, which blocks
		// (without a yield) until the activation is over and then continues by itself
		r.ex.SetUp = false
		server := r.s.Go("server", false, func() {
			r.pl.ServeChannel(r.ch)
			r.serveReturned = r.s.Seq()
		})
		server.Data = &e1TaskData{role: "server"}
		r.s.ResumeDetached(server)
		// the harness tasks must not run before ServeChannel has attached the channel to its pipeline and
		// submitted the read loop (nobody can hold the channel earlier); from then on the server task only waits
		deadline := time.Now().Add(10 * time.Second)
		for len(r.ex.TaskList()) == 0 {
			if time.Now().After(deadline) {
				return fmt.Errorf("ServeChannel did not submit the read loop within 10 s")
			}
			time.Sleep(10 * time.Microsecond)
		}
	} else {
		r.pl.ServeChannel(r.ch)
		r.serveReturned = r.s.Seq()
		r.ex.SetUp = false
		if err := r.s.Settle(); err != nil {
			return err
		}
	}
	for ti, spec := range r.c.Tasks {
		ti, spec := ti, spec
		td := &e1TaskData{role: spec.Role, idx: ti}
		t := r.s.Go(fmt.Sprintf("%s-%d", spec.Role, ti), false, func() { r.runTask(ti, spec, td) })
		t.Data = td
		if len(spec.After) > 0 {
			after := spec.After
			t.Gate(func() bool {
				for _, a := range after {
					if a >= 0 && a < len(r.tasks) && !r.tasks[a].Done() {
						return false
					}
					if a == afterClosed && !r.closeReturned() {
						return false
					}
				}
				return true
			})
		}
		r.tasks = append(r.tasks, t)
	}
	r.s.OnStep = r.onStep
	return nil
}

func (r *e1Run) onStep() {
	if st, ok := netty.VerifState(r.ch); ok && st.Queued {
		if st.QueueLen > r.maxQ {
			r.maxQ = st.QueueLen
		}
		// accepted-but-unsent bound (C18): successful calls whose payload is not yet completely in the bytes the
		// transport has taken (judged on the bytes, not on how the sender groups them into transport calls;
		// an empty payload counts as sent)
		if !r.wantBound {
			return
		}
		r.mu.Lock()
		calls := append([]*e1Call(nil), r.calls...)
		r.mu.Unlock()
		stream, _ := r.tr.Accepted()
		p, _ := r.parseStream(stream)
		d := 0
		for _, c := range calls {
			if isWriteOp(c.Op.Op) && c.Op.Op != "readfrom" && c.Op.Op != "write" && c.ok() && len(c.Payload) > 0 {
				if _, sent := p.endOff[c.ID]; !sent {
					d++
				}
			}
		}
		if d > r.bound {
			r.bound = d
		}
	}
}

func (r *e1Run) resolve(d E1Dir) *sched.Task {
	switch {
	case d.Task == -1:
		ss := r.senders()
		for i := len(ss) - 1; i >= 0; i-- {
			if !ss[i].Done() {
				return ss[i]
			}
		}
		return nil
	case d.Task == -2:
		return r.reader()
	case d.Task >= 0 && d.Task < len(r.tasks):
		return r.tasks[d.Task]
	}
	return nil
}

// execute runs the directed prefix, the schedule, and (unless NoSweep) the final sweep.
func (r *e1Run) execute() {
	defer func() { e1cur = nil }()
	if err := r.start(); err != nil {
		r.incon = err.Error()
		return
	}
	for _, d := range r.c.Prefix {
		t := r.resolve(d)
		if t == nil || t.Done() {
			continue
		}
		for k := 0; k <= d.Repeat; k++ {
			if t.Label() == d.Label {
				ok, err := r.s.StepTask(t)
				if err != nil {
					r.incon = err.Error()
					return
				}
				if !ok {
					break
				}
			}
			reached, err := r.s.RunTo(t, d.Label)
			if err != nil {
				r.incon = err.Error()
				return
			}
			if !reached {
				break
			}
		}
	}
	if err := r.s.Run(); err != nil {
		r.incon = err.Error()
		return
	}
}

// sweep releases every stall, lets everything finish, optionally closes the channel.
func (r *e1Run) sweep(closeChannel bool) {
	e1cur = r
	defer func() { e1cur = nil }()
	r.release = true
	r.futile = 0 // the closer continues only once the sender is quiescent
	for i := 0; i < 50; i++ {
		if err := r.s.Drain(); err != nil && r.incon == "" {
			r.incon = "sweep: " + err.Error()
			return
		}
		// a writer pushed into the enqueue select by the terminal probe continues on its own once there is room
		if r.s.WaitDetached(2*time.Second) && len(r.s.EnabledTasks()) == 0 {
			break
		}
		if !r.s.WaitDetached(0) && len(r.s.EnabledTasks()) == 0 {
			break // still blocked and nothing can unblock it
		}
	}
	if closeChannel {
		for _, c := range r.liveCtx {
			c()
		}
		t := r.s.Go("sweeper", false, func() { r.ch.Close(nil) })
		t.Data = &e1TaskData{role: "sweeper"}
		if err := r.s.Drain(); err != nil && r.incon == "" {
			r.incon = "sweep close: " + err.Error()
			return
		}
		r.pcancel()
		if err := r.s.Drain(); err != nil && r.incon == "" {
			r.incon = "sweep cancel: " + err.Error()
		}
		for _, c := range r.cleanup {
			c()
		}
	}
}

// firstCloseBegin is the sequence number at which the first explicit Close call began (0 = none).
func (r *e1Run) firstCloseBegin() int {
	b := 0
	for _, c := range r.closeCalls {
		if c.Begin != 0 && (b == 0 || c.Begin < b) {
			b = c.Begin
		}
	}
	return b
}

// stuck lists tasks that are parked but not enabled.
func (r *e1Run) stuck() []string {
	var out []string
	en := map[*sched.Task]bool{}
	for _, t := range r.s.EnabledTasks() {
		en[t] = true
	}
	for _, t := range r.s.Parked() {
		if !en[t] {
			out = append(out, fmt.Sprintf("%s@%s", t.Name, t.Label()))
		}
	}
	sort.Strings(out)
	return out
}

// parsed is the transport stream parsed into payloads.
type e1Parsed struct {
	order     []int       // call ids in stream order
	endOff    map[int]int // call id -> end offset in the stream
	partial   int         // id of a payload whose bytes are only partly in the stream (0 = none)
	partialOK []int       // rejected ReadFrom calls whose leading chunks are in the stream
}

// parseStream parses the accepted bytes by call-id table.
func (r *e1Run) parseStream(stream []byte) (p e1Parsed, v *core.Violation) {
	p.endOff = map[int]int{}
	seen := map[int]bool{}
	pos := 0
	for pos < len(stream) {
		id := int(stream[pos]) - r.idBase
		call := r.byID[id]
		if call == nil || len(call.Payload) == 0 || !isWriteOp(call.Op.Op) {
			return p, core.Viol("stream/unknown-bytes", "transport stream offset %d: byte %#x does not start any written payload (previous payloads %v)", pos, stream[pos], p.order)
		}
		want := call.Payload
		n := imin(len(want), len(stream)-pos)
		if call.Op.Op == "readfrom" && (call.End == 0 || call.Err != nil) {
			// a streamed reader that was rejected half-way (or is still on its way: a call pushed on by a terminal probe
			// runs beside the harness): the chunks written so far stay
			l := firstDiff(stream[pos:pos+n], want[:n])
			if l == 0 {
				return p, core.Viol("stream/payload-modified", "first byte of a rejected ReadFrom payload only (call %d)", id)
			}
			if seen[id] {
				return p, core.Viol("stream/payload-duplicated", "payload of call %d (readfrom) appears twice in the transport stream", id)
			}
			seen[id] = true
			p.partialOK = append(p.partialOK, id)
			pos += l
			continue
		}
		if !bytes.Equal(stream[pos:pos+n], want[:n]) {
			d := firstDiff(stream[pos:pos+n], want[:n])
			return p, core.Viol("stream/payload-modified", "payload of call %d (%s, task %d, %d bytes) differs from the caller's bytes at payload offset %d: got %#x want %#x", id, call.Op.Op, call.Task, len(want), d, stream[pos+d], want[d])
		}
		if n < len(want) {
			p.partial = id
			break
		}
		if seen[id] {
			return p, core.Viol("stream/payload-duplicated", "payload of call %d (%s, task %d) appears twice in the transport stream", id, call.Op.Op, call.Task)
		}
		seen[id] = true
		p.order = append(p.order, id)
		pos += len(want)
		p.endOff[id] = pos
	}
	return p, nil
}

func (r *e1Run) describe() string {
	var b strings.Builder
	for _, c := range r.calls {
		fmt.Fprintf(&b, "[#%d t%d %s %v begin=%d end=%d n=%d err=%v]", c.ID, c.Task, c.Op.Op, c.Op.Sizes, c.Begin, c.End, c.N, c.Err)
	}
	return b.String()
}

// baseClasses adds the labels every E1 property reports.
func (r *e1Run) baseClasses() {
	r.cls.Add("kind:%s", r.c.Kind)
	if r.s.AutoBlocked > 0 {
		// a wait without a yield point inside the code under test: the scheduler went on without that task
		r.cls.Add("task-blocked-inside-library:went-on-without-it")
	}
	if r.c.Kind != "sync" {
		q := r.c.Queue
		switch {
		case q <= 2:
			r.cls.Add("queue:%d", q)
		default:
			r.cls.Add("queue:>2")
		}
	}
	switch p := r.s.Preempts; {
	case p == 0:
		r.cls.Add("preempt:0")
	case p < 3:
		r.cls.Add("preempt:1-2")
	default:
		r.cls.Add("preempt:>=3")
	}
	for _, c := range r.calls {
		if isWriteOp(c.Op.Op) {
			r.cls.Add("entry:%s", c.Op.Op)
		}
	}
	if r.maxQ >= 2 {
		r.cls.Add("queued>=2")
	}
	if r.lockContended {
		r.cls.Add("sync-lock-contended")
	}
	for _, ev := range r.tr.Events {
		if ev.Kind == "writev" && ev.Segs >= 2 && r.c.Kind != "sync" {
			r.cls.Add("batch>=2")
		}
	}
	for _, c := range r.calls {
		if c.Parked {
			r.cls.Add("blocked-on-full-queue")
		}
	}
	if len(r.senders()) > 1 {
		r.cls.Add("sender-restarted")
	}
}

// escapedPanic reports a panic that escaped a direct API call or a task.
func (r *e1Run) escapedPanic() string {
	for _, c := range r.calls {
		if c.Panic != nil {
			return fmt.Sprintf("call #%d %s panicked: %v\n%s", c.ID, c.Op.Op, c.Panic, c.Stack)
		}
	}
	for _, t := range r.s.Tasks() {
		if t.Panic != nil {
			return fmt.Sprintf("task %s panicked: %v\n%s", t.Name, t.Panic, t.Stack)
		}
	}
	return ""
}

var _ = time.Second

type mockTEvent = mock.TEvent

type e1Winner struct {
	task *sched.Task
	seq  int
}
