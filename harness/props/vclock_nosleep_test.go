//go:build vclock

package props

import (
	"os"
	"sync/atomic"
	"time"

	netty "github.com/go-netty/go-netty"

	"verif/harness/mock"
)

// With VERIF_NOSLEEP=1 (clock-redirected build only) the 100 ms sleep of Close's poll loop takes no time:
// under the cooperative scheduler nothing else can happen while the closer sleeps, so the sleep only costs
// wall time. Everything else (Now, timers) stays real.
type noSleepClock struct{}

var noSleepSlept int64 // nanoseconds of sleep asked for since the last reset (the virtual time spent waiting)

// Now is the real time plus everything that was "slept", so that deadline-based waits also end.
func (noSleepClock) Now() time.Time {
	return time.Now().Add(time.Duration(atomic.LoadInt64(&noSleepSlept)))
}

func (noSleepClock) AfterFunc(d time.Duration, f func()) (func(time.Duration) bool, func() bool) {
	t := time.AfterFunc(d, f)
	return t.Reset, t.Stop
}

// Sleep yields for a few microseconds: a closer running beside the scheduler (real-goroutine cases) must not spin hot.
func (noSleepClock) Sleep(d time.Duration) {
	atomic.AddInt64(&noSleepSlept, int64(d))
	time.Sleep(10 * time.Microsecond)
}

func init() {
	if os.Getenv("VERIF_NOSLEEP") == "1" {
		netty.VerifSetClock(noSleepClock{})
		virtSlept = func() time.Duration { return time.Duration(atomic.LoadInt64(&noSleepSlept)) }
		virtSleptReset = func() { atomic.StoreInt64(&noSleepSlept, 0) }
		mock.NowFunc = func() time.Time { return time.Now().Add(time.Duration(atomic.LoadInt64(&noSleepSlept))) }
	}
}
