package props

import (
	"bytes"
	"encoding/binary"
	"encoding/json"
	"fmt"
	"io"
	"math"
	"math/big"
	"reflect"
	"strconv"
	"strings"
	"sync"
	"testing"
	"time"
	"unicode/utf8"

	netty "github.com/go-netty/go-netty"
	"github.com/go-netty/go-netty/codec/format"
	"github.com/go-netty/go-netty/codec/frame"
	"pgregory.net/rapid"

	"verif/harness/core"
	"verif/harness/mock"
	"verif/harness/wire"
)

// C16 — text and JSON codecs round-trip and reject malformed frames.

// JNode is a JSON value tree (JSON-serialisable itself).
type JNode struct {
	T    string   `json:"t"` // null | bool | str | num (literal) | i64 | u64 | f64 | arr | obj
	S    string   `json:"s,omitempty"`
	B    bool     `json:"b,omitempty"`
	Keys []string `json:"keys,omitempty"`
	Kids []JNode  `json:"kids,omitempty"`
}

type C16Case struct {
	Mode     string   `json:"mode"`            // text | json-roundtrip | json-frame | text-seq | json-seq
	Texts    [][]byte `json:"texts,omitempty"` // text-seq: messages received one after the other through the same codec instances
	Text     []byte   `json:"text,omitempty"`
	Carrier  string   `json:"carrier"`           // inbound carrier type
	Cuts     []int    `json:"cuts,omitempty"`    // for the fragmenting reader
	Tree     *JNode   `json:"tree,omitempty"`    // json-roundtrip: object to send
	OutKind  string   `json:"outkind,omitempty"` // map | raw | struct
	UseNum   bool     `json:"usenum"`
	Disallow bool     `json:"disallow"`
	Frame    []byte   `json:"frame,omitempty"`  // json-frame: raw inbound frame
	Expect   string   `json:"expect,omitempty"` // json-frame: reject | object
	Mutation string   `json:"mutation,omitempty"`
	Loop     bool     `json:"loop"`            // through a real channel with a varint frame codec underneath
	Trees    []JNode  `json:"trees,omitempty"` // json-seq: objects written one after the other; the handler behind the codec keeps the emitted messages
}

var jsonKeys = []string{"k\\u003c", "a", "b", "key", "", "ключ", "k\"q", "tab\t", "é", "long-key-with-many-chars", "x y", "\\", "/", "<&>", "🙂"}
var jsonStrs = []string{"\\u003c", "a\\u0026b\\u003e", "<&>", "\\", "\\n", "", "x", "hello world", "\"quoted\"", "line\nbreak", " ", "日本語", "\x00nul", "a\\b", "</script>", "🙂🙂"}
var jsonNums = []string{"0", "-0", "1", "-1", "42", "9007199254740992", "9007199254740993", "-9007199254740993", "9223372036854775807",
	"-9223372036854775808", "18446744073709551615", "1.5", "-2.25", "0.1", "1e10", "1E-7", "1.7976931348623157e308", "5e-324",
	"123456789012345678901234567890", "3.141592653589793238462643383279", "1e400"}

func genJNode(t *rapid.T, depth int) JNode {
	k := rapid.IntRange(0, 9).Draw(t, "jk")
	if depth <= 0 && k >= 7 {
		k = rapid.IntRange(0, 6).Draw(t, "jleaf")
	}
	switch k {
	case 0:
		return JNode{T: "null"}
	case 1:
		return JNode{T: "bool", B: rapid.Bool().Draw(t, "b")}
	case 2:
		if rapid.Bool().Draw(t, "arbstr") {
			s := rapid.String().Draw(t, "s")
			return JNode{T: "str", S: strings.ToValidUTF8(s, "?")}
		}
		return JNode{T: "str", S: rapid.SampledFrom(jsonStrs).Draw(t, "s")}
	case 3:
		return JNode{T: "num", S: rapid.SampledFrom(jsonNums).Draw(t, "num")}
	case 4:
		v := rapid.SampledFrom([]int64{0, 1, -1, 1 << 53, 1<<53 + 1, -(1<<53 + 1), math.MaxInt64, math.MinInt64, 123456789}).Draw(t, "i64")
		return JNode{T: "i64", S: strconv.FormatInt(v, 10)}
	case 5:
		v := rapid.SampledFrom([]uint64{0, 1 << 53, 1<<53 + 1, math.MaxUint64, 1<<63 + 1}).Draw(t, "u64")
		return JNode{T: "u64", S: strconv.FormatUint(v, 10)}
	case 6:
		f := rapid.Float64().Draw(t, "f64")
		if math.IsNaN(f) || math.IsInf(f, 0) {
			f = 1.25
		}
		return JNode{T: "f64", S: strconv.FormatFloat(f, 'g', -1, 64)}
	case 7:
		n := rapid.IntRange(0, 3).Draw(t, "alen")
		node := JNode{T: "arr"}
		for i := 0; i < n; i++ {
			node.Kids = append(node.Kids, genJNode(t, depth-1))
		}
		return node
	default:
		return genJObj(t, depth-1)
	}
}

func genJObj(t *rapid.T, depth int) JNode {
	node := JNode{T: "obj"}
	n := rapid.IntRange(0, 4).Draw(t, "olen")
	seen := map[string]bool{}
	for i := 0; i < n; i++ {
		k := rapid.SampledFrom(jsonKeys).Draw(t, "key")
		if seen[k] {
			continue
		}
		seen[k] = true
		node.Keys = append(node.Keys, k)
		node.Kids = append(node.Kids, genJNode(t, depth))
	}
	return node
}

func genC16(t *rapid.T) C16Case {
	c := C16Case{Mode: rapid.SampledFrom([]string{"text", "text", "json-roundtrip", "json-roundtrip", "json-frame", "json-frame", "text-seq", "json-seq"}).Draw(t, "mode")}
	if c.Mode == "json-seq" {
		// several objects written through one codec; the next outbound handler keeps what it was handed (a batching
		// or re-entrant handler) and looks at it only after the later objects were encoded
		for i := rapid.IntRange(2, 4).Draw(t, "ntrees"); i > 0; i-- {
			c.Trees = append(c.Trees, genJObj(t, rapid.IntRange(0, 2).Draw(t, "depth")))
		}
		c.UseNum = true
		c.Carrier = "bytes"
		return c
	}
	if c.Mode == "text-seq" {
		// several messages through one channel whose frame codec reuses its read buffer (variable-length codec):
		// a received string must stay what it was when later messages arrive
		for i := rapid.IntRange(2, 4).Draw(t, "ntexts"); i > 0; i-- {
			c.Texts = append(c.Texts, rapid.SliceOfN(rapid.Byte(), 1, 120).Draw(t, "seqtext"))
		}
		c.Carrier = "bytes"
		return c
	}
	c.Carrier = rapid.SampledFrom([]string{"bytes", "breader", "buffer", "frag", "string", "via-lf", "via-fixed", "breader-used", "sreader-used"}).Draw(t, "carrier")
	if c.Carrier == "frag" || c.Carrier == "via-lf" || c.Carrier == "via-fixed" {
		c.Cuts = rapid.SliceOfN(rapid.IntRange(1, 9), 1, 8).Draw(t, "cuts")
	}
	c.Loop = rapid.IntRange(0, 19).Draw(t, "loop") == 0
	switch c.Mode {
	case "text":
		switch rapid.IntRange(0, 3).Draw(t, "tk") {
		case 0:
			c.Text = rapid.SliceOfN(rapid.Byte(), 0, 64).Draw(t, "text")
		case 1:
			n := rapid.SampledFrom([]int{0, 1, 1023, 1024, 1025, 2048, 4097, 32768, 32769, 65536, 65537, 100000, 131073, 200000}).Draw(t, "tlen")
			c.Text, _ = payloadBytes(wire.Codec{}, n, rapid.IntRange(0, 99).Draw(t, "tseed"))
		case 2:
			c.Text = []byte(rapid.SampledFrom([]string{"", "\x00", "a\x00b", "\xff\xfe", "caf\xc3", "\r\n", "$", "é", "\xed\xa0\x80"}).Draw(t, "tlit"))
		default:
			c.Text = []byte(rapid.String().Draw(t, "tstr"))
		}
	case "json-roundtrip":
		tree := genJObj(t, rapid.IntRange(0, 4).Draw(t, "depth"))
		if rapid.IntRange(0, 999).Draw(t, "hugejson") == 417 {
			// an object of several megabytes (a document store dump, a base64 file)
			big := strings.Repeat("0123456789abcdef", rapid.SampledFrom([]int{262144, 262145, 400000}).Draw(t, "hugelen"))
			tree = JNode{T: "obj", Keys: []string{"id", "blob"}, Kids: []JNode{{T: "str", S: "x"}, {T: "str", S: big}}}
			c.Carrier = rapid.SampledFrom([]string{"bytes", "breader", "buffer"}).Draw(t, "hugecarrier")
			c.Loop = false
		}
		c.Tree = &tree
		c.OutKind = rapid.SampledFrom([]string{"map", "map", "raw", "struct"}).Draw(t, "outkind")
		c.UseNum = rapid.Bool().Draw(t, "usenum")
		c.Disallow = rapid.Bool().Draw(t, "disallow")
	default:
		tree := genJObj(t, rapid.IntRange(0, 3).Draw(t, "depth"))
		valid, _ := json.Marshal(buildJSONValue(tree))
		c.UseNum = rapid.Bool().Draw(t, "usenum")
		c.Disallow = rapid.Bool().Draw(t, "disallow")
		c.Mutation = rapid.SampledFrom([]string{"truncate", "truncate", "toplevel", "garbage", "escape", "control", "trailing", "whitespace", "valid", "brace"}).Draw(t, "mut")
		c.Expect = "reject"
		switch c.Mutation {
		case "truncate":
			p := rapid.IntRange(0, len(valid)-1).Draw(t, "p")
			c.Frame = valid[:p]
		case "toplevel":
			c.Frame = []byte(rapid.SampledFrom([]string{"null", "true", "false", "1", "-0.5", "\"s\"", "[]", "[{}]", "nul", " null ", "\"{}\""}).Draw(t, "top"))
		case "garbage":
			c.Frame = append([]byte(rapid.SampledFrom([]string{"x", "}", ",", "\x00", "\xef\xbb\xbf", "//c\n", "'"}).Draw(t, "g")), valid...)
		case "escape":
			c.Frame = []byte(`{"k":"bad\` + rapid.SampledFrom([]string{"x", "u12", "uZZZZ", "'", "a"}).Draw(t, "esc") + `"}`)
		case "control":
			c.Frame = []byte("{\"k\":\"raw\x01ctl\"}")
		case "brace":
			c.Frame = []byte(rapid.SampledFrom([]string{"{", "{}}"[:1], "{\"a\"}", "{\"a\":}", "{\"a\":1,}", "{,}", "{\"a\" 1}", "{a:1}", "{\"a\":01}", "{\"a\":+1}", "{\"a\":.5}", "{\"a\":1.}", "{\"a\":tru}"}).Draw(t, "br"))
		case "trailing":
			c.Frame = append(append([]byte{}, valid...), []byte(rapid.SampledFrom([]string{" ", "\n", "x", "{}", "}", "null", "\x00"}).Draw(t, "tr"))...)
			c.Expect = "object"
		case "whitespace":
			c.Frame = append([]byte(rapid.SampledFrom([]string{" ", "\n\t", "\r\n "}).Draw(t, "ws")), valid...)
			c.Expect = "object"
		default:
			c.Frame = valid
			c.Expect = "object"
		}
	}
	return c
}

// buildJSONValue turns the tree into the Go value that is written.
func buildJSONValue(n JNode) interface{} {
	switch n.T {
	case "null":
		return nil
	case "bool":
		return n.B
	case "str":
		return n.S
	case "num":
		return json.Number(n.S)
	case "i64":
		v, _ := strconv.ParseInt(n.S, 10, 64)
		return v
	case "u64":
		v, _ := strconv.ParseUint(n.S, 10, 64)
		return v
	case "f64":
		v, _ := strconv.ParseFloat(n.S, 64)
		return v
	case "arr":
		out := make([]interface{}, 0, len(n.Kids))
		for _, k := range n.Kids {
			out = append(out, buildJSONValue(k))
		}
		return out
	default:
		out := map[string]interface{}{}
		for i, k := range n.Keys {
			out[k] = buildJSONValue(n.Kids[i])
		}
		return out
	}
}

func numRat(s string) (*big.Rat, bool) {
	// guard against gigantic exponents
	if i := strings.IndexAny(s, "eE"); i >= 0 {
		if e, err := strconv.Atoi(s[i+1:]); err != nil || e > 1000 || e < -1000 {
			return nil, false
		}
	}
	return new(big.Rat).SetString(s)
}

// equalJSON compares a received value with the sent tree.
func equalJSON(n JNode, got interface{}, useNum bool, path string) string {
	switch n.T {
	case "null":
		if got != nil {
			return fmt.Sprintf("%s: got %T(%v), want null", path, got, got)
		}
	case "bool":
		if b, ok := got.(bool); !ok || b != n.B {
			return fmt.Sprintf("%s: got %v, want %v", path, got, n.B)
		}
	case "str":
		if s, ok := got.(string); !ok || s != n.S {
			return fmt.Sprintf("%s: got %q, want %q", path, got, n.S)
		}
	case "num", "i64", "u64", "f64":
		if useNum {
			num, ok := got.(json.Number)
			if !ok {
				return fmt.Sprintf("%s: got %T, want json.Number", path, got)
			}
			a, ok1 := numRat(string(num))
			b, ok2 := numRat(n.S)
			if !ok1 || !ok2 || a.Cmp(b) != 0 {
				return fmt.Sprintf("%s: number not preserved exactly: got %s, sent %s", path, num, n.S)
			}
		} else {
			f, ok := got.(float64)
			w, err := strconv.ParseFloat(n.S, 64)
			if err != nil {
				return "" // not representable as float64: outside the contract without number preservation
			}
			if !ok || (f != w && !(f == 0 && w == 0)) {
				return fmt.Sprintf("%s: got %v, want float64 %v", path, got, w)
			}
		}
	case "arr":
		a, ok := got.([]interface{})
		if !ok || len(a) != len(n.Kids) {
			return fmt.Sprintf("%s: got %T len?, want array of %d", path, got, len(n.Kids))
		}
		for i := range a {
			if d := equalJSON(n.Kids[i], a[i], useNum, fmt.Sprintf("%s[%d]", path, i)); d != "" {
				return d
			}
		}
	default:
		m, ok := got.(map[string]interface{})
		if !ok || len(m) != len(n.Keys) {
			return fmt.Sprintf("%s: got %T with %d keys, want object with %d keys", path, got, len(m), len(n.Keys))
		}
		for i, k := range n.Keys {
			v, present := m[k]
			if !present {
				return fmt.Sprintf("%s: key %q missing", path, k)
			}
			if d := equalJSON(n.Kids[i], v, useNum, path+"."+k); d != "" {
				return d
			}
		}
	}
	return ""
}

func hasUnrepresentable(n JNode) bool {
	if n.T == "num" {
		if _, err := strconv.ParseFloat(n.S, 64); err != nil {
			return true
		}
	}
	for _, k := range n.Kids {
		if hasUnrepresentable(k) {
			return true
		}
	}
	return false
}

func jsonDepth(n JNode) int {
	d := 0
	for _, k := range n.Kids {
		if x := jsonDepth(k); x > d {
			d = x
		}
	}
	if n.T == "obj" || n.T == "arr" {
		return d + 1
	}
	return d
}

func hasBigInt(n JNode) bool {
	switch n.T {
	case "num", "i64", "u64":
		if r, ok := numRat(n.S); ok && r.IsInt() {
			lim := new(big.Int).Lsh(big.NewInt(1), 53)
			if new(big.Int).Abs(r.Num()).Cmp(lim) > 0 {
				return true
			}
		}
	}
	for _, k := range n.Kids {
		if hasBigInt(k) {
			return true
		}
	}
	return false
}

// viaFrameDecoder hands data to a shipped frame decoder the way a transport would (fragmented) and returns the
// message the decoder delivers: what a text/JSON codec really receives behind a length-field or fixed-length codec.
func viaFrameDecoder(kind string, data []byte, cuts []int) interface{} {
	var dec netty.InboundHandler
	var stream []byte
	if kind == "via-fixed" {
		if len(data) == 0 {
			return append([]byte{}, data...)
		}
		dec = frame.FixedLengthCodec(len(data))
		stream = append([]byte{}, data...)
	} else {
		dec = frame.LengthFieldCodec(binary.BigEndian, len(data)+4, 0, 4, 0, 4)
		stream = binary.BigEndian.AppendUint32(nil, uint32(len(data)))
		stream = append(stream, data...)
	}
	if len(cuts) > 0 && len(data) > 4096 {
		// large frames arrive in segment-sized reads
		cuts = append(append([]int{}, cuts...), 1460)
	}
	var got interface{}
	ctx := &mock.Ctx{OnRead: func(m netty.Message) { got = m }}
	dec.HandleRead(ctx, &wire.Fragmenter{Data: stream, Cuts: cuts, End: "eof"})
	return got
}

func inboundCarrier(kind string, data []byte, cuts []int) interface{} {
	switch kind {
	case "via-lf", "via-fixed":
		return viaFrameDecoder(kind, data, cuts)
	case "breader-used", "sreader-used":
		// a handler in front of the codec has read a tag from the frame and hands the same reader on
		all := append([]byte("T:"), data...)
		if kind == "breader-used" {
			r := bytes.NewReader(all)
			_, _ = io.ReadFull(r, make([]byte, 2))
			return r
		}
		r := strings.NewReader(string(all))
		_, _ = io.ReadFull(r, make([]byte, 2))
		return r
	case "breader":
		return bytes.NewReader(append([]byte{}, data...))
	case "buffer":
		return bytes.NewBuffer(append([]byte{}, data...))
	case "frag":
		return &wire.Fragmenter{Data: append([]byte{}, data...), Cuts: cuts, End: "eof"}
	case "string":
		return string(data)
	}
	return append([]byte{}, data...)
}

type c16Struct struct {
	Name   string                 `json:"name"`
	Count  int64                  `json:"count"`
	Big    uint64                 `json:"big"`
	Ratio  float64                `json:"ratio"`
	Nested map[string]interface{} `json:"nested"`
	Tags   []string               `json:"tags"`
}

func runC16(c C16Case) (out core.Outcome) {
	cls := core.NewClassSet()
	defer func() { out.Classes = cls.List() }()
	cls.Add("mode:%s", c.Mode)
	cls.Add("carrier:%s", c.Carrier)
	if c.Mode == "text-seq" {
		cls.Add("layer:channel")
		return runC16Seq(c, cls, out)
	}
	if c.Mode == "json-seq" {
		return runC16JSONSeq(c, cls, out)
	}
	if c.Loop && c.Carrier != "via-lf" && c.Carrier != "via-fixed" && c.Carrier != "breader-used" && c.Carrier != "sreader-used" {
		cls.Add("layer:channel")
		return runC16Loop(c, cls, out)
	}
	switch c.Mode {
	case "text":
		codec := format.TextCodec()
		// outbound: string -> bytes
		var emitted []byte
		var n int
		octx := &mock.Ctx{OnWrite: func(m netty.Message) {
			n++
			b, err := wire.Flatten(m)
			if err != nil {
				panic(err)
			}
			emitted = b
		}}
		if pv := mock.Catch(func() { codec.HandleWrite(octx, string(c.Text)) }); pv != nil {
			out.Violation = core.Viol("C16/text-write-raised", "text codec raised %v writing a %d-byte string", pv, len(c.Text))
			return
		}
		if n != 1 || !bytes.Equal(emitted, c.Text) {
			out.Violation = core.Viol("C16/text-write-altered", "wrote %d-byte string, %d messages forwarded, bytes differ (got %d bytes)", len(c.Text), n, len(emitted))
			return
		}
		// inbound: bytes -> string
		var got interface{}
		n = 0
		ictx := &mock.Ctx{OnRead: func(m netty.Message) { n++; got = m }}
		if pv := mock.Catch(func() { codec.HandleRead(ictx, inboundCarrier(c.Carrier, c.Text, c.Cuts)) }); pv != nil {
			out.Violation = core.Viol("C16/text-read-raised", "text codec raised %v reading %d bytes from %s", pv, len(c.Text), c.Carrier)
			return
		}
		s, ok := got.(string)
		if n != 1 || !ok || s != string(c.Text) {
			out.Violation = core.Viol("C16/text-read-altered", "read %d bytes via %s: delivered %T, %d messages, equal=%v", len(c.Text), c.Carrier, got, n, ok && s == string(c.Text))
			return
		}
		if !utf8.Valid(c.Text) {
			cls.Add("text-invalid-utf8")
			out.NonTrivial = true
		}
		if len(c.Text) > 1024 {
			cls.Add("text-large")
			out.NonTrivial = true
		}
		if bytes.IndexByte(c.Text, 0) >= 0 {
			cls.Add("text-nul")
		}
		return
	case "json-roundtrip":
		codec := format.JSONCodec(c.UseNum, c.Disallow)
		cls.Add("usenum:%v", c.UseNum)
		tree := *c.Tree
		var value interface{} = buildJSONValue(tree)
		cls.Add("out:%s", c.OutKind)
		switch c.OutKind {
		case "raw":
			b, err := json.Marshal(value)
			if err != nil {
				return core.Outcome{Inconclusive: "harness: cannot marshal tree"}
			}
			value = json.RawMessage(b)
		case "struct":
			st := c16Struct{Name: "n\"ame", Count: math.MinInt64, Big: math.MaxUint64, Ratio: 0.1, Nested: value.(map[string]interface{}), Tags: []string{"a", ""}}
			value = st
			tree = JNode{T: "obj", Keys: []string{"name", "count", "big", "ratio", "nested", "tags"}, Kids: []JNode{
				{T: "str", S: st.Name}, {T: "i64", S: strconv.FormatInt(st.Count, 10)}, {T: "u64", S: strconv.FormatUint(st.Big, 10)},
				{T: "f64", S: "0.1"}, *c.Tree, {T: "arr", Kids: []JNode{{T: "str", S: "a"}, {T: "str", S: ""}}}}}
		}
		var emitted []byte
		octx := &mock.Ctx{OnWrite: func(m netty.Message) {
			b, err := wire.Flatten(m)
			if err != nil {
				panic(err)
			}
			emitted = b
		}}
		if pv := mock.Catch(func() { codec.HandleWrite(octx, value) }); pv != nil {
			out.Violation = core.Viol("C16/json-write-raised", "json codec raised %v writing a representable object", pv)
			return
		}
		var got interface{}
		n := 0
		ictx := &mock.Ctx{OnRead: func(m netty.Message) { n++; got = m }}
		pv := mock.Catch(func() { codec.HandleRead(ictx, inboundCarrier(c.Carrier, emitted, c.Cuts)) })
		if pv != nil {
			if !c.UseNum && hasUnrepresentable(tree) {
				cls.Add("float-out-of-range-rejected")
				return // a literal beyond float64 cannot be received without number preservation
			}
			out.Violation = core.Viol("C16/json-read-raised", "json codec raised %v reading back its own output %.80q", pv, emitted)
			return
		}
		if n != 1 {
			out.Violation = core.Viol("C16/json-delivery-count", "%d messages delivered for one frame", n)
			return
		}
		if d := equalJSON(tree, got, c.UseNum, "$"); d != "" {
			out.Violation = core.Viol("C16/json-roundtrip-differs", "%s (frame %.120q)", d, emitted)
			return
		}
		if len(emitted) > 4<<20 {
			cls.Add("json-frame-larger-than-4MiB")
		}
		if jsonDepth(tree) >= 2 {
			cls.Add("json-nested")
			out.NonTrivial = true
		}
		if hasBigInt(tree) {
			cls.Add("json-bigint:usenum=%v", c.UseNum)
			out.NonTrivial = true
		}
		return
	default:
		codec := format.JSONCodec(c.UseNum, c.Disallow)
		cls.Add("mutation:%s", c.Mutation)
		// reference decode of the first value
		refDec := json.NewDecoder(bytes.NewReader(c.Frame))
		refDec.UseNumber() // label cross-check only: is the first value a complete object?
		var refVal interface{}
		refErr := refDec.Decode(&refVal)
		_, refIsObj := refVal.(map[string]interface{})
		if c.Expect == "reject" && refErr == nil && refIsObj {
			return core.Outcome{Inconclusive: fmt.Sprintf("harness: mutation %s produced a frame that starts with a valid object: %q", c.Mutation, c.Frame)}
		}
		if c.Expect == "object" && (refErr != nil || !refIsObj) {
			return core.Outcome{Inconclusive: fmt.Sprintf("harness: frame expected valid is not: %q", c.Frame)}
		}
		var got interface{}
		n := 0
		ictx := &mock.Ctx{OnRead: func(m netty.Message) { n++; got = m }}
		pv := mock.Catch(func() { codec.HandleRead(ictx, inboundCarrier(c.Carrier, c.Frame, c.Cuts)) })
		out.NonTrivial = c.Expect == "reject"
		if c.Expect == "reject" {
			if pv == nil || n > 0 {
				sig := "C16/json-malformed-delivered:" + c.Mutation
				if strings.TrimSpace(string(c.Frame)) == "null" {
					sig = "C16/json-null-delivered"
				}
				out.Violation = core.Viol(sig, "frame %.60q does not begin with a complete JSON object but %d message(s) were delivered (%T %v), raised=%v", c.Frame, n, got, got, pv)
			}
			return
		}
		// differential with encoding/json configured like the codec, on the same frame
		cmpDec := json.NewDecoder(bytes.NewReader(c.Frame))
		if c.UseNum {
			cmpDec.UseNumber()
		}
		want := map[string]interface{}{}
		cmpErr := cmpDec.Decode(&want)
		if cmpErr != nil {
			// e.g. a literal beyond float64 without number preservation: must raise, too
			cls.Add("valid-object-unrepresentable")
			if pv == nil {
				out.Violation = core.Viol("C16/json-differs-from-reference", "frame %.80q: reference decoding fails (%v) but the codec delivered %v", c.Frame, cmpErr, got)
			}
			return
		}
		if pv != nil {
			out.Violation = core.Viol("C16/json-valid-rejected", "frame %.80q begins with a complete object but the codec raised %v", c.Frame, pv)
			return
		}
		if n != 1 || !reflect.DeepEqual(got, interface{}(want)) {
			out.Violation = core.Viol("C16/json-differs-from-reference", "frame %.80q: delivered %v (%d messages), reference %v", c.Frame, got, n, want)
		}
		return
	}
}

// runC16Loop sends the value through a real channel: [varint frame codec, text/json codec, consumer];
// whatever the channel writes is fed back as its own inbound stream.
func runC16Loop(c C16Case, cls *core.ClassSet, out core.Outcome) core.Outcome {
	if c.Mode == "json-frame" {
		// frame content arrives through the frame codec
		c.Carrier = "bytes"
	}
	var mu sync.Mutex
	var got []interface{}
	consumer := netty.InboundHandlerFunc(func(ctx netty.InboundContext, m netty.Message) {
		mu.Lock()
		got = append(got, m)
		mu.Unlock()
	})
	var fc netty.Handler = format.TextCodec()
	if c.Mode != "text" {
		fc = format.JSONCodec(c.UseNum, c.Disallow)
	}
	rig := newChanRig(0, frame.VarintLengthFieldCodec(1<<20), fc, consumer)
	rig.keepOpen = true
	defer rig.shutdown()
	var tree JNode
	switch c.Mode {
	case "text":
		if err := rig.ch.Write(string(c.Text)); err != nil {
			out.Inconclusive = "loop: write failed: " + err.Error()
			return out
		}
	case "json-roundtrip":
		tree = *c.Tree
		if err := rig.ch.Write(buildJSONValue(tree)); err != nil {
			out.Inconclusive = "loop: write failed: " + err.Error()
			return out
		}
	default:
		// hand-frame the raw content
		b, _ := wire.Codec{Kind: "varint", Max: 1 << 20}.RefEncode(c.Frame, nil)
		rig.tr.Feed(b)
	}
	if c.Mode != "json-frame" {
		if ex := rig.exceptions(); len(ex) > 0 {
			out.Violation = core.Viol("C16/loop-write-raised", "channel layer: writing raised %v", ex[0])
			return out
		}
		acc, _ := rig.tr.Accepted()
		// feed back in pieces
		for i := 0; i < len(acc); i += 7 {
			rig.tr.Feed(acc[i:imin(i+7, len(acc))])
		}
	}
	if !rig.quiesce(10 * time.Second) {
		out.Inconclusive = "loop: read loop did not become idle"
		return out
	}
	mu.Lock()
	defer mu.Unlock()
	exs := rig.exceptions()
	switch c.Mode {
	case "text":
		if len(exs) > 0 || len(got) != 1 {
			out.Violation = core.Viol("C16/text-loop", "channel layer: %d messages, exceptions %v", len(got), exs)
			return out
		}
		if s, ok := got[0].(string); !ok || s != string(c.Text) {
			out.Violation = core.Viol("C16/text-read-altered", "channel layer: received %T differs from the %d-byte string sent", got[0], len(c.Text))
		}
	case "json-roundtrip":
		if len(exs) > 0 {
			if !c.UseNum && hasUnrepresentable(tree) {
				return out
			}
			out.Violation = core.Viol("C16/json-read-raised", "channel layer: exception %v", exs[0])
			return out
		}
		if len(got) != 1 {
			out.Violation = core.Viol("C16/json-delivery-count", "channel layer: %d messages delivered", len(got))
			return out
		}
		if d := equalJSON(tree, got[0], c.UseNum, "$"); d != "" {
			out.Violation = core.Viol("C16/json-roundtrip-differs", "channel layer: %s", d)
		}
	default:
		if c.Expect == "reject" {
			out.NonTrivial = true
			if len(got) > 0 {
				sig := "C16/json-malformed-delivered:" + c.Mutation
				if strings.TrimSpace(string(c.Frame)) == "null" {
					sig = "C16/json-null-delivered"
				}
				out.Violation = core.Viol(sig, "channel layer: frame %.60q delivered as %v", c.Frame, got[0])
			} else if len(exs) == 0 {
				out.Violation = core.Viol("C16/json-malformed-silent:"+c.Mutation, "channel layer: frame %.60q neither delivered nor raised", c.Frame)
			}
		}
	}
	return out
}

// runC16Seq: [variable-length frame codec, text codec, consumer] on a real channel; one transport read per message.
func runC16Seq(c C16Case, cls *core.ClassSet, out core.Outcome) core.Outcome {
	var mu sync.Mutex
	var got []string
	consumer := netty.InboundHandlerFunc(func(ctx netty.InboundContext, m netty.Message) {
		if s, ok := m.(string); ok {
			mu.Lock()
			got = append(got, s) // kept as delivered
			mu.Unlock()
		}
	})
	rig := newChanRig(0, frame.VariableLengthCodec(4096), format.TextCodec(), consumer)
	rig.keepOpen = true
	defer rig.shutdown()
	for _, txt := range c.Texts {
		rig.tr.Feed(txt)
		if !rig.quiesce(10 * time.Second) {
			out.Inconclusive = "text-seq: read loop did not become idle"
			return out
		}
	}
	mu.Lock()
	defer mu.Unlock()
	if ex := rig.exceptions(); len(ex) > 0 || len(got) != len(c.Texts) {
		out.Violation = core.Viol("C16/text-seq-delivery", "%d messages delivered for %d sent, exceptions %v", len(got), len(c.Texts), ex)
		return out
	}
	for i, txt := range c.Texts {
		if got[i] != string(txt) {
			out.Violation = core.Viol("C16/text-read-altered", "message %d of %d: the string received for %q reads %q after later messages arrived", i, len(c.Texts), txt, got[i])
			return out
		}
	}
	out.NonTrivial = true
	cls.Add("text-sequence")
	return out
}

// runC16JSONSeq: objects written one after the other through one JSON codec; the handler behind the codec keeps the
// emitted messages and reads them only at the end. Each must still decode to its own object.
func runC16JSONSeq(c C16Case, cls *core.ClassSet, out core.Outcome) core.Outcome {
	codec := format.JSONCodec(true, false)
	var held []interface{}
	octx := &mock.Ctx{OnWrite: func(m netty.Message) { held = append(held, m) }}
	for i, tr := range c.Trees {
		if pv := mock.Catch(func() { codec.HandleWrite(octx, buildJSONValue(tr)) }); pv != nil {
			out.Violation = core.Viol("C16/json-write-raised", "json codec raised %v writing object %d", pv, i)
			return out
		}
	}
	if len(held) != len(c.Trees) {
		out.Violation = core.Viol("C16/json-delivery-count", "%d messages forwarded for %d objects written", len(held), len(c.Trees))
		return out
	}
	for i, m := range held {
		b, err := wire.Flatten(m)
		if err != nil {
			out.Inconclusive = fmt.Sprintf("harness: cannot flatten %T: %v", m, err)
			return out
		}
		var got interface{}
		n := 0
		ictx := &mock.Ctx{OnRead: func(m netty.Message) { n++; got = m }}
		if pv := mock.Catch(func() { codec.HandleRead(ictx, append([]byte{}, b...)) }); pv != nil || n != 1 {
			out.Violation = core.Viol("C16/json-emitted-frame-changed-later", "object %d of %d: the message the codec emitted no longer decodes after later objects were written (%v): %.100q", i, len(c.Trees), pv, b)
			return out
		}
		if d := equalJSON(c.Trees[i], got, true, "$"); d != "" {
			out.Violation = core.Viol("C16/json-emitted-frame-changed-later", "object %d of %d: the message the codec emitted for it holds another object after later objects were written: %s (now %.100q)", i, len(c.Trees), d, b)
			return out
		}
	}
	cls.Add("json-sequence-held")
	out.NonTrivial = true
	return out
}

func TestC16(t *testing.T) {
	core.Main(t, core.Prop[C16Case]{
		ID:  "C16",
		Gen: genC16,
		Run: runC16,
	})
}
