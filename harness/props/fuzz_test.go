package props

import (
	"bufio"
	"bytes"
	"encoding/json"
	"errors"
	"io"
	"net/http"
	"os"
	"runtime"
	"strings"
	"sync"
	"testing"
	"time"

	netty "github.com/go-netty/go-netty"
	"github.com/go-netty/go-netty/codec/xhttp"

	"verif/harness/core"
	"verif/harness/mock"
	"verif/harness/wire"
)

// Native fuzz targets (thorough tier): bytes are decoded into the same Case
// values the rapid generators produce and judged by the same runners/oracles.

type fuzzData struct {
	b []byte
	i int
}

func (d *fuzzData) byte() byte {
	if d.i >= len(d.b) {
		return 0
	}
	v := d.b[d.i]
	d.i++
	return v
}
func (d *fuzzData) intn(n int) int {
	if n <= 0 {
		return 0
	}
	return int(d.byte()) % n
}
func (d *fuzzData) rest() []byte {
	if d.i >= len(d.b) {
		return nil
	}
	return d.b[d.i:]
}

func fuzzFail[C any](t *testing.T, prop string, c C, out core.Outcome) {
	if out.Violation == nil {
		return
	}
	if core.KnownSigs(prop)[out.Violation.Sig] {
		return
	}
	if path := os.Getenv("VERIF_FAIL_CASE"); path != "" {
		data, _ := json.MarshalIndent(map[string]interface{}{"case": c, "violation": out.Violation}, "", " ")
		_ = os.WriteFile(path, data, 0o644)
	}
	t.Fatalf("VIOLATION %s", out.Violation)
}

func fuzzCodec(d *fuzzData) wire.Codec {
	var c wire.Codec
	c.Kind = []string{"lf", "prep", "varint", "delim", "fixed"}[d.intn(5)]
	widths := []int{1, 2, 4, 8}
	maxes := []int{1, 2, 5, 8, 16, 17, 64, 255, 256, 257, 1024, 70000}
	switch c.Kind {
	case "lf":
		c.Width, c.Little, c.Off, c.Adj, c.Strip = widths[d.intn(4)], d.intn(2) == 1, d.intn(7), d.intn(17)-8, d.intn(12)
	case "prep":
		c.Width, c.Little, c.IncLen, c.Adj, c.Strip = widths[d.intn(4)], d.intn(2) == 1, d.intn(2) == 1, d.intn(17)-8, d.intn(8)
	case "delim":
		alpha := []byte{'a', 'b', '\r', '\n', 0}
		for n := 1 + d.intn(4); n > 0; n-- {
			c.Delim = append(c.Delim, alpha[d.intn(len(alpha))])
		}
		c.StripD = d.intn(2) == 1
	case "fixed":
		c.Fixed = []int{1, 2, 3, 7, 16, 255, 256, 1023}[d.intn(8)]
	}
	c.Max = maxes[d.intn(len(maxes))]
	if c.Kind == "lf" && c.Max < c.Off+c.Width {
		c.Max = c.Off + c.Width + d.intn(8)
	}
	if c.Kind == "prep" && c.Max < c.Width {
		c.Max = c.Width + d.intn(8)
	}
	return c
}

func fuzzCuts(d *fuzzData) []int {
	switch d.intn(4) {
	case 0:
		return []int{1}
	case 1:
		return nil
	}
	var cuts []int
	for n := 1 + d.intn(6); n > 0; n-- {
		cuts = append(cuts, 1+d.intn(40))
	}
	return cuts
}

func FuzzC08(f *testing.F) {
	// valid frames and hostile constants
	f.Add([]byte{0, 0, 0, 0, 0, 0, 10, 1, 3, 'a', 'b', 'c'})
	f.Add([]byte{2, 3, 0, 0x80, 0x80, 0x80, 0x80, 0x80, 0x80, 0x80, 0x80, 0x80, 0x01, 1, 2})
	f.Add([]byte{2, 1, 1, 0xff, 0xff, 0xff, 0xff, 0xff, 0xff, 0xff, 0xff, 0xff, 0x7f})
	f.Add([]byte{0, 3, 1, 0, 0, 0, 5, 1, 0xff, 0xff, 0xff, 0xff, 0xff, 0xff, 0xff, 0xff, 1, 2, 3})
	f.Add([]byte{3, 1, 2, 0, 1, 1, 4, 0, 'x', 'y', '\r', '\n', 'z'})
	f.Add([]byte{4, 2, 0, 2, 0, 1, 2, 3, 4, 5})
	f.Fuzz(func(t *testing.T, data []byte) {
		if len(data) > 4096 {
			return
		}
		d := &fuzzData{b: data}
		c := C08Case{Codec: fuzzCodec(d), Cuts: fuzzCuts(d)}
		c.End = []string{"eof", "err", "eofdata"}[d.intn(3)]
		flags := d.intn(16)
		c.Zero = []int{0, 0, 2, 3}[flags&3]
		if flags&4 != 0 {
			c.Packet, c.Zero = true, 0
			if len(c.Cuts) == 0 {
				c.Cuts = []int{7}
			}
		}
		if flags&8 != 0 && flags&4 == 0 {
			// the "maximum received length" decoder
			c.Codec = wire.Codec{Kind: "varlen", Max: []int{1, 7, 16, 100, 1000, 1024, 1025}[d.intn(7)]}
			c.Zero = 0
		}
		c.Stream = append([]byte{}, d.rest()...)
		fuzzFail(t, "C08", c, runC08(c))
	})
}

func FuzzC04(f *testing.F) {
	f.Add([]byte{0, 0, 0, 0, 0, 0, 10, 1, 2, 9, 1, 300 % 256, 1})
	f.Add([]byte{1, 1, 1, 1, 3, 2, 5, 2, 3, 255, 0, 1, 2})
	f.Add([]byte{3, 2, 0, 1, 2, 3, 1, 4, 16, 5, 17, 6})
	f.Fuzz(func(t *testing.T, data []byte) {
		if len(data) > 256 {
			return
		}
		d := &fuzzData{b: data}
		c := C04Case{Codec: fuzzCodec(d), Cuts: fuzzCuts(d), End: "eof", UseEncoder: d.intn(4) != 0}
		flags := d.intn(32)
		if flags&1 != 0 {
			c.End = "eofdata"
		}
		c.Arena, c.Hold = flags&2 != 0, flags&4 != 0
		c.Zero = []int{0, 0, 2, 3}[(flags>>3)&3]
		sizes := []int{0, 1, 2, 3, 7, 15, 16, 17, 100, 254, 255, 256, 257, 300, 1023, 1024, 1025, 65535, 65536}
		for n := 1 + d.intn(5); n > 0; n-- {
			fr := C04Frame{Len: sizes[d.intn(len(sizes))], Seed: d.intn(200), Carrier: c04Carriers[d.intn(len(c04Carriers))]}
			if c.Codec.Kind == "fixed" {
				fr.Len = c.Codec.Fixed
			}
			c.Frames = append(c.Frames, fr)
		}
		// make the frames admissible for the decoder: max at least the largest frame
		biggest := 0
		for _, fr := range c.Frames {
			biggest = imax(biggest, fr.Len+c.Codec.HeaderLen()+len(c.Codec.Delim)+8)
		}
		if c.Codec.Max < biggest && d.intn(3) != 0 {
			c.Codec.Max = biggest
		}
		out := runC04(c)
		if out.Inconclusive != "" {
			return
		}
		fuzzFail(t, "C04", c, out)
	})
}

func FuzzC16(f *testing.F) {
	for _, s := range []string{`{}`, `{"a":1}`, `null`, `{"a":[1,2,{"b":null}]}`, `{"n":9007199254740993}`, `{"a":1}x`, ` {"k":"é"}`, `[1]`, `{"a":1e400}`, `{"a":"\ud800"}`} {
		f.Add([]byte(s), byte(0))
	}
	f.Fuzz(func(t *testing.T, frame []byte, flags byte) {
		if len(frame) > 2048 {
			return
		}
		c := C16Case{Mode: "json-frame", Carrier: []string{"bytes", "breader", "buffer", "frag", "string"}[int(flags>>2)%5], UseNum: flags&1 == 1, Disallow: flags&2 == 2,
			Frame: frame, Mutation: "fuzz", Cuts: []int{1 + int(flags>>5)}}
		// the reference decides what the frame is
		dec := json.NewDecoder(bytes.NewReader(frame))
		dec.UseNumber()
		var v interface{}
		err := dec.Decode(&v)
		if _, isObj := v.(map[string]interface{}); err == nil && isObj {
			c.Expect = "object"
		} else {
			c.Expect = "reject"
		}
		out := runC16(c)
		if out.Inconclusive != "" {
			return
		}
		fuzzFail(t, "C16", c, out)
	})
}

func FuzzC14(f *testing.F) {
	f.Add([]byte{0, 0, 3, 100, 5, 1, 0})
	f.Add([]byte{3, 9, 12, 255, 2, 7, 1})
	f.Fuzz(func(t *testing.T, data []byte) {
		if len(data) > 64 {
			return
		}
		d := &fuzzData{b: data}
		modes := []string{"head", "head", "tobytes", "toreader", "bytereader", "stealbytes"}
		all := append(append([]string{}, c14Supported...), c14Unsupported...)
		c := C14Case{Mode: modes[d.intn(len(modes))], Carrier: all[d.intn(len(all))], Queue: []int{0, 1, 2, 8}[d.intn(4)]}
		c.Size = int(d.byte())<<4 | int(d.byte())&15
		if d.intn(8) == 0 {
			c.Size = c14Sizes[d.intn(len(c14Sizes)-1)]
		}
		c.Seed, c.Step = int(d.byte()), []int{1, 2, 3, 7, 16, 100, 1023, 1024, 1025, 4096}[d.intn(10)]
		if c.Size > 5000 && c.Step < 7 {
			c.Step = 100
		}
		c.ErrAt = int(d.byte()) * imax(1, c.Size) / 256
		switch c.Mode {
		case "bytereader":
			if !isReaderCarrier(c.Carrier) || c.Carrier == "netbuffers" {
				c.Carrier = "short"
			}
			c.Size = imin(c.Size, 5000)
			c.ErrAt = imin(c.ErrAt, c.Size)
		case "stealbytes":
			ok := map[string]bool{"breader": true, "sreader": true, "buffer": true, "netbuffers": true, "wt1": true, "wtN": true, "wtReuse": true, "bufio": true}
			if !ok[c.Carrier] {
				c.Carrier = "wtN"
			}
		}
		out := runC14(c)
		if out.Inconclusive != "" {
			return
		}
		fuzzFail(t, "C14", c, out)
	})
}

// FuzzC15: raw bytes as the inbound stream with a fixed echo handler. Oracle: differential against
// net/http's own ReadRequest loop (bodies drained): the same requests, in order, until the first
// parse error; no runtime-error exception; every emitted response parses.
type C15RawCase struct {
	Stream []byte `json:"stream"`
	Cuts   []int  `json:"cuts"`
}

func runC15Raw(c C15RawCase) (out core.Outcome) {
	// reference
	var want []string
	closesAfter := -1
	br := bufio.NewReader(bytes.NewReader(c.Stream))
	for i := 0; i < 50; i++ {
		req, err := http.ReadRequest(br)
		if err != nil {
			break
		}
		body, berr := io.ReadAll(req.Body)
		want = append(want, req.Method+" "+req.RequestURI+" "+req.Proto)
		_ = body
		if req.Close || berr != nil {
			closesAfter = i
			break
		}
	}
	var mu sync.Mutex
	var seen []string
	var exs []error
	handler := http.HandlerFunc(func(w http.ResponseWriter, r *http.Request) {
		mu.Lock()
		seen = append(seen, r.Method+" "+r.RequestURI+" "+r.Proto)
		mu.Unlock()
		w.Header().Set("Content-Length", "2")
		_, _ = w.Write([]byte("ok"))
	})
	tr := mock.NewTransport(nil, false, nil)
	ex := &mock.InlineExec{}
	pl := netty.NewPipeline()
	ch := netty.NewChannel()(1, bgCtx, pl, tr, ex)
	pl.AddLast(xhttp.ServerCodec(), netty.ExceptionHandlerFunc(func(ctx netty.ExceptionContext, e netty.Exception) {
		mu.Lock()
		exs = append(exs, e)
		mu.Unlock()
		ctx.HandleException(e)
	}), xhttp.Handler(handler))
	pl.ServeChannel(ch)
	defer func() {
		ch.Close(nil)
		done := make(chan struct{})
		go func() { ex.WG.Wait(); close(done) }()
		select {
		case <-done:
		case <-time.After(5 * time.Second):
		}
	}()
	pos := 0
	for k := 0; pos < len(c.Stream); k++ {
		sz := len(c.Stream)
		if len(c.Cuts) > 0 {
			sz = c.Cuts[imin(k, len(c.Cuts)-1)]
		}
		sz = imin(imax(1, sz), len(c.Stream)-pos)
		tr.Feed(c.Stream[pos : pos+sz])
		pos += sz
	}
	tr.PeerClose()
	if !tr.WaitReadParked(10 * time.Second) {
		out.Inconclusive = "read loop neither parked nor closed"
		return
	}
	if tr.IsClosed() {
		done := make(chan struct{})
		go func() { ex.WG.Wait(); close(done) }()
		select {
		case <-done:
		case <-time.After(5 * time.Second):
			out.Inconclusive = "read loop did not end"
			return
		}
	}
	mu.Lock()
	defer mu.Unlock()
	for _, e := range exs {
		var re runtime.Error
		if errors.As(e, &re) {
			out.Violation = core.Viol("C15/runtime-fault", "runtime error exception for inbound bytes %.60q: %v", c.Stream, e)
			return
		}
	}
	_ = closesAfter
	if strings.Join(seen, "|") != strings.Join(want, "|") {
		out.Violation = core.Viol("C15/requests-differ-from-reference", "handler saw %v, net/http's ReadRequest loop over the same bytes yields %v", seen, want)
		return
	}
	wireBytes, _ := tr.Accepted()
	rbr := bufio.NewReader(bytes.NewReader(wireBytes))
	for i := range seen {
		resp, err := http.ReadResponse(rbr, nil)
		if err != nil {
			out.Violation = core.Viol("C15/response-unparseable", "response %d of %d cannot be parsed: %v", i, len(seen), err)
			return
		}
		_, _ = io.ReadAll(resp.Body)
		resp.Body.Close()
	}
	out.NonTrivial = len(seen) > 0
	return
}

func FuzzC15(f *testing.F) {
	f.Add([]byte("GET / HTTP/1.1\r\nHost: x\r\n\r\n"), byte(0))
	f.Add([]byte("POST /a HTTP/1.1\r\nHost: x\r\nContent-Length: 5\r\n\r\nhelloGET /b HTTP/1.1\r\nHost: x\r\n\r\n"), byte(3))
	f.Add([]byte("POST /c HTTP/1.1\r\nHost: x\r\nTransfer-Encoding: chunked\r\n\r\n3\r\nabc\r\n0\r\n\r\nGET /d HTTP/1.0\r\n\r\n"), byte(1))
	f.Add([]byte("GET /e HTTP/1.1\r\nHost: x\r\nConnection: close\r\n\r\nGET /f HTTP/1.1\r\nHost: x\r\n\r\n"), byte(9))
	f.Fuzz(func(t *testing.T, stream []byte, cut byte) {
		if len(stream) > 2048 {
			return
		}
		c := C15RawCase{Stream: stream}
		if cut > 0 {
			c.Cuts = []int{int(cut)}
		}
		out := runC15Raw(c)
		if out.Inconclusive != "" {
			return
		}
		fuzzFail(t, "C15", c, out)
	})
}
