package props

import (
	"context"
	"encoding/json"
	"fmt"
	"os"
	"sort"
	"sync"
	"testing"
	"time"

	netty "github.com/go-netty/go-netty"
	"pgregory.net/rapid"

	"verif/harness/core"
	"verif/harness/mock"
)

// C20 — idle handlers fire only after a full idle period and never after inactive (real time).

const (
	c20Idle  = time.Second
	c20Slack = 400 * time.Millisecond
)

type C20Stim struct {
	AtMs int    `json:"at_ms"`
	Kind string `json:"kind"`        // read | write
	N    int    `json:"n,omitempty"` // burst size
}

type C20Line struct {
	Handlers   string    `json:"handlers"` // read | write | both
	Stims      []C20Stim `json:"stims"`
	InactiveMs int       `json:"inactive_ms"`          // 0 = stays active until the end
	PanicOn    int       `json:"panic_on"`             // the event handler panics on the k-th idle event (0 = never)
	CloseOn    int       `json:"close_on"`             // the event handler closes the channel from inside the k-th idle event (0 = never)
	LingerMs   int       `json:"linger_ms,omitempty"`  // a downstream inactive handler takes this long (reconnect back-off, cleanup)
	LateWrite  bool      `json:"late_write,omitempty"` // after inactive, a handler that still holds a context writes once more
	ExcPanics  bool      `json:"exc_panics"`           // with PanicOn: the exception handler itself panics the first time it is called
	EndMs      int       `json:"end_ms"`
}

type C20Case struct {
	Lines   []C20Line  `json:"lines,omitempty"`
	Virtual []C20VLine `json:"virtual,omitempty"` // virtual-time stage (c20v_idle_test.go)
}

type C20VStep struct {
	Op  string `json:"op"`            // adv | advdue | run | read | write | inactive
	Ms  int    `json:"ms,omitempty"`  // adv: amount; advdue: offset to the next due time; inactive: what the downstream inactive handler takes
	Idx int    `json:"idx,omitempty"` // run: which pending callback
}

type C20VLine struct {
	Handlers  string     `json:"handlers"`
	IdleMs    int        `json:"idle_ms"`
	Prompt    bool       `json:"prompt"` // callbacks run at the instant their timer comes due
	Steps     []C20VStep `json:"steps"`
	PanicOn   int        `json:"panic_on,omitempty"`
	CloseOn   int        `json:"close_on,omitempty"`
	ExcPanics bool       `json:"exc_panics,omitempty"`
	// OnActive: what a handler behind the idle handlers does with the active event: "" forwards it,
	// "close" closes the channel from inside it, "panic" panics (the exception is swallowed, the channel stays open)
	OnActive string `json:"on_active,omitempty"`
}

func genC20Line(t *rapid.T) C20Line {
	l := C20Line{Handlers: rapid.SampledFrom([]string{"read", "write", "both", "both"}).Draw(t, "handlers")}
	l.EndMs = rapid.SampledFrom([]int{2600, 3600, 4400}).Draw(t, "end")
	kinds := []string{"read", "write"}
	n := rapid.IntRange(0, 6).Draw(t, "nstim")
	for i := 0; i < n; i++ {
		at := rapid.IntRange(0, l.EndMs-800).Draw(t, "at")
		if rapid.IntRange(0, 2).Draw(t, "nearexpiry") == 0 {
			// just before / after an expected expiry (activation at ~0, or 1 s after the previous stimulus)
			base := 1000
			if len(l.Stims) > 0 {
				base = l.Stims[len(l.Stims)-1].AtMs + 1000
			}
			at = base + rapid.SampledFrom([]int{-80, -40, -20, 20, 50, 80}).Draw(t, "delta")
		}
		if at < 0 || at > l.EndMs-300 {
			continue
		}
		l.Stims = append(l.Stims, C20Stim{AtMs: at, Kind: rapid.SampledFrom(kinds).Draw(t, "kind"), N: rapid.SampledFrom([]int{1, 1, 1, 5}).Draw(t, "burst")})
	}
	sort.Slice(l.Stims, func(i, j int) bool { return l.Stims[i].AtMs < l.Stims[j].AtMs })
	switch rapid.IntRange(0, 5).Draw(t, "inactive") {
	case 0:
		l.InactiveMs = rapid.IntRange(100, l.EndMs-1300).Draw(t, "inat")
	case 1:
		// race the timer callback: within +-30 ms of an expected expiry
		base := 1000
		if len(l.Stims) > 0 {
			base = l.Stims[len(l.Stims)-1].AtMs + 1000
		}
		l.InactiveMs = base + rapid.IntRange(-30, 30).Draw(t, "inrace")
		if l.InactiveMs > l.EndMs-1300 || l.InactiveMs < 50 {
			l.InactiveMs = 0
		}
	}
	if l.InactiveMs > 0 {
		if rapid.IntRange(0, 3).Draw(t, "linger") == 1 {
			l.LingerMs = rapid.SampledFrom([]int{1300, 2200}).Draw(t, "lingerms")
			l.EndMs = imax(l.EndMs, l.InactiveMs+l.LingerMs+400)
		}
		if rapid.IntRange(0, 3).Draw(t, "latewrite") == 2 {
			l.LateWrite = true
			l.EndMs = imax(l.EndMs, l.InactiveMs+l.LingerMs+1700)
		}
	}
	switch rapid.IntRange(0, 7).Draw(t, "special") {
	case 0:
		l.PanicOn = rapid.IntRange(1, 2).Draw(t, "panicon")
		l.ExcPanics = rapid.IntRange(0, 2).Draw(t, "excpanics") == 0
	case 1:
		l.CloseOn = rapid.IntRange(1, 2).Draw(t, "closeon")
	}
	return l
}

func genC20(t *rapid.T) C20Case {
	var c C20Case
	n := 200
	for i := 0; i < n; i++ {
		c.Lines = append(c.Lines, genC20Line(t))
	}
	return c
}

type c20Stamp struct {
	kind       string // read | write | active
	start, end time.Duration
}

type c20Obs struct {
	mu             sync.Mutex
	stamps         []c20Stamp
	events         []c20Stamp // idle events: kind + time (start==end)
	exceptions     []error
	inactiveAt     time.Duration // return of the Close that delivered inactive (0 = none)
	inactivePassed time.Duration // the inactive event reached the handler after the idle handlers (0 = not yet)
	closeBegin     time.Duration
}

func runC20Line(l C20Line) (*c20Obs, *core.Violation) {
	obs := &c20Obs{}
	t0 := time.Now()
	now := func() time.Duration { return time.Since(t0) }
	tr := mock.NewTransport(nil, false, nil)
	pl := netty.NewPipeline()
	ch := netty.NewChannel()(1, context.Background(), pl, tr, netty.AsyncExecutor())
	if l.Handlers == "read" || l.Handlers == "both" {
		pl.AddLast(netty.ReadIdleHandler(c20Idle))
	}
	if l.Handlers == "write" || l.Handlers == "both" {
		pl.AddLast(netty.WriteIdleHandler(c20Idle))
	}
	nEvents := 0
	pl.AddLast(netty.ActiveHandlerFunc(func(ctx netty.ActiveContext) {
		obs.mu.Lock()
		obs.stamps = append(obs.stamps, c20Stamp{kind: "active", start: 0, end: now()})
		obs.mu.Unlock()
		ctx.HandleActive()
	}), netty.EventHandlerFunc(func(ctx netty.EventContext, ev netty.Event) {
		kind := ""
		switch ev.(type) {
		case netty.ReadIdleEvent:
			kind = "read"
		case netty.WriteIdleEvent:
			kind = "write"
		default:
			return
		}
		at := now()
		obs.mu.Lock()
		obs.events = append(obs.events, c20Stamp{kind: kind, start: at, end: at})
		nEvents++
		k := nEvents
		obs.mu.Unlock()
		if l.CloseOn == k {
			obs.mu.Lock()
			obs.closeBegin = now()
			obs.mu.Unlock()
			ctx.Close(fmt.Errorf("verif: closed from the idle event handler"))
			obs.mu.Lock()
			obs.inactiveAt = now()
			obs.mu.Unlock()
		}
		if l.PanicOn == k {
			panic(fmt.Sprintf("verif: idle event handler panic #%d", k))
		}
	}), netty.InactiveHandlerFunc(func(ctx netty.InactiveContext, ex netty.Exception) {
		obs.mu.Lock()
		if obs.inactivePassed == 0 {
			obs.inactivePassed = now()
		}
		obs.mu.Unlock()
		if l.LingerMs > 0 {
			time.Sleep(time.Duration(l.LingerMs) * time.Millisecond)
		}
		ctx.HandleInactive(ex)
	}), netty.InboundHandlerFunc(func(ctx netty.InboundContext, m netty.Message) {
		if rd, ok := m.(interface{ Read([]byte) (int, error) }); ok {
			buf := make([]byte, 64)
			if _, err := rd.Read(buf); err != nil {
				panic(err)
			}
		}
	}), netty.ExceptionHandlerFunc(func(ctx netty.ExceptionContext, ex netty.Exception) {
		obs.mu.Lock()
		obs.exceptions = append(obs.exceptions, ex)
		first := len(obs.exceptions) == 1
		obs.mu.Unlock()
		if first && l.ExcPanics {
			panic("verif: exception handler panic")
		}
	}))
	pl.ServeChannel(ch)
	for _, s := range l.Stims {
		if l.InactiveMs > 0 && s.AtMs >= l.InactiveMs {
			break
		}
		if d := time.Duration(s.AtMs)*time.Millisecond - now(); d > 0 {
			time.Sleep(d)
		}
		for i := 0; i < imax(1, s.N); i++ {
			st := c20Stamp{kind: s.Kind, start: now()}
			if s.Kind == "read" {
				func() {
					defer func() { _ = recover() }()
					pl.FireChannelRead("inbound")
				}()
			} else {
				_ = ch.Write([]byte("out"))
			}
			st.end = now()
			obs.mu.Lock()
			obs.stamps = append(obs.stamps, st)
			obs.mu.Unlock()
		}
	}
	_ = stimsDone
	if l.InactiveMs > 0 {
		if d := time.Duration(l.InactiveMs)*time.Millisecond - now(); d > 0 {
			time.Sleep(d)
		}
		obs.mu.Lock()
		// a Close issued from the idle event handler may be in progress (its downstream inactive handler lingering):
		// the channel stopped being active when the first Close began
		already := obs.inactiveAt != 0 || obs.closeBegin != 0
		if !already {
			obs.closeBegin = now()
		}
		obs.mu.Unlock()
		if !already {
			ch.Close(nil)
			obs.mu.Lock()
			if obs.inactiveAt == 0 {
				obs.inactiveAt = now()
			}
			obs.mu.Unlock()
		}
	}
	if l.LateWrite && l.InactiveMs > 0 {
		// e.g. a heartbeat goroutine that lost the race with Close: it writes through the pipeline once more
		func() {
			defer func() { _ = recover() }()
			pl.FireChannelWrite([]byte("late"))
		}()
	}
	if d := time.Duration(l.EndMs)*time.Millisecond - now(); d > 0 {
		time.Sleep(d)
	}
	end := now()
	ch.Close(nil)
	return obs, judgeC20(l, obs, end)
}

var stimsDone = true

func judgeC20(l C20Line, obs *c20Obs, end time.Duration) *core.Violation {
	obs.mu.Lock()
	defer obs.mu.Unlock()
	hasKind := func(k string) bool { return l.Handlers == k || l.Handlers == "both" }
	inactive := obs.inactiveAt
	if obs.inactivePassed != 0 {
		inactive = obs.inactivePassed // the moment the event had passed the idle handlers
	}
	for _, ev := range obs.events {
		// no early event
		for _, s := range obs.stamps {
			if s.kind != ev.kind && s.kind != "active" {
				continue
			}
			if s.end <= ev.start-c20Slack && ev.start < s.start+c20Idle {
				return core.Viol("C20/idle-event-early:"+ev.kind, "%s-idle event at %v although the last %s completed at %v (started %v): less than the idle time of %v has elapsed", ev.kind, ev.start, s.kind, s.end, s.start, c20Idle)
			}
		}
	}
	// after inactive: at most one event per handler after the Close returned, none later than the slack
	if inactive != 0 {
		after := map[string]int{}
		for _, ev := range obs.events {
			if ev.start > inactive {
				after[ev.kind]++
				if ev.start > inactive+c20Slack {
					return core.Viol("C20/idle-event-after-inactive:"+ev.kind, "%s-idle event at %v, %v after the inactive event had passed (at %v)", ev.kind, ev.start, ev.start-inactive, inactive)
				}
			}
		}
		for k, n := range after {
			if n > 1 {
				return core.Viol("C20/idle-event-after-inactive:"+k, "%d %s-idle events after the inactive event had passed (at %v)", n, k, inactive)
			}
		}
	}
	// persistence: every silent window longer than 2*idle+slack (while active) contains an event
	activeUntil := end
	if obs.closeBegin != 0 {
		activeUntil = obs.closeBegin
	}
	for _, kind := range []string{"read", "write"} {
		if !hasKind(kind) {
			continue
		}
		var marks []time.Duration
		for _, s := range obs.stamps {
			if s.kind == kind || s.kind == "active" {
				marks = append(marks, s.end)
			}
		}
		for _, ev := range obs.events {
			if ev.kind == kind {
				marks = append(marks, ev.start)
			}
		}
		marks = append(marks, activeUntil)
		sort.Slice(marks, func(i, j int) bool { return marks[i] < marks[j] })
		for i := 1; i < len(marks); i++ {
			if marks[i] > activeUntil {
				break
			}
			if gap := marks[i] - marks[i-1]; gap > 2*c20Idle+c20Slack {
				return core.Viol("C20/idle-event-missing:"+kind, "no %s-idle event between %v and %v (%v of %s silence on an active channel)", kind, marks[i-1], marks[i], gap, kind)
			}
		}
	}
	// panic containment
	if l.PanicOn > 0 && len(obs.events) >= l.PanicOn {
		found := false
		for _, ex := range obs.exceptions {
			if ex != nil && len(ex.Error()) > 0 && containsStr(ex.Error(), "idle event handler panic") {
				found = true
			}
		}
		if !found {
			return core.Viol("C20/event-handler-panic-not-routed", "the idle event handler panicked on event %d but no exception was delivered (exceptions: %v)", l.PanicOn, obs.exceptions)
		}
	}
	return nil
}

func containsStr(s, sub string) bool {
	for i := 0; i+len(sub) <= len(s); i++ {
		if s[i:i+len(sub)] == sub {
			return true
		}
	}
	return false
}

func runC20(c C20Case) (out core.Outcome) {
	cls := core.NewClassSet()
	defer func() { out.Classes = cls.List() }()
	if dir, shard := os.Getenv("VERIF_WITNESS_DIR"), os.Getenv("VERIF_SHARD"); dir != "" && shard != "" {
		if data, err := json.Marshal(map[string]interface{}{"case": c}); err == nil {
			_ = os.WriteFile(fmt.Sprintf("%s/current-%s.json", dir, shard), data, 0o644)
		}
	}
	type res struct {
		i   int
		obs *c20Obs
		v   *core.Violation
	}
	results := make([]res, len(c.Lines))
	var wg sync.WaitGroup
	for i, l := range c.Lines {
		wg.Add(1)
		go func(i int, l C20Line) {
			defer wg.Done()
			obs, v := runC20Line(l)
			results[i] = res{i, obs, v}
		}(i, l)
	}
	wg.Wait()
	for i, l := range c.Lines {
		cls.Add("handlers:%s", l.Handlers)
		r := results[i]
		if len(r.obs.events) > 0 {
			cls.Add("idle-events-observed")
		}
		nontrivial := false
		if l.PanicOn > 0 && len(r.obs.events) >= l.PanicOn {
			cls.Add("event-handler-panicked")
			if l.ExcPanics {
				cls.Add("double-fault")
			}
			nontrivial = true
		}
		if l.CloseOn > 0 && len(r.obs.events) >= l.CloseOn {
			cls.Add("closed-from-event-handler")
			nontrivial = true
		}
		if l.LingerMs > 0 {
			cls.Add("slow-downstream-inactive")
		}
		if l.LateWrite {
			cls.Add("write-after-inactive")
		}
		if l.InactiveMs > 0 {
			cls.Add("inactive")
			for _, ev := range r.obs.events {
				if d := ev.start - time.Duration(l.InactiveMs)*time.Millisecond; d > -30*time.Millisecond && d < 30*time.Millisecond {
					cls.Add("inactive-near-expiry")
					nontrivial = true
				}
			}
		}
		for _, s := range r.obs.stamps {
			for _, ev := range r.obs.events {
				if d := ev.start - s.end; s.kind == ev.kind && d > -100*time.Millisecond && d < 100*time.Millisecond {
					cls.Add("stimulus-near-expiry")
					nontrivial = true
				}
			}
		}
		if nontrivial {
			out.NonTrivial = true
		}
	}
	for _, r := range results {
		if r.v == nil {
			continue
		}
		// a timing-dependent oracle: report only what reproduces on an immediate second run of the same timeline
		_, v2 := runC20Line(c.Lines[r.i])
		if v2 != nil && v2.Sig == r.v.Sig {
			r.v.Msg = fmt.Sprintf("timeline %d: %s (reproduced on a second run: %s)", r.i, r.v.Msg, v2.Msg)
			out.Violation = r.v
			return
		}
		cls.Add("unreproduced-hit")
	}
	return
}

func TestC20(t *testing.T) {
	core.Main(t, core.Prop[C20Case]{
		ID: "C20",
		Gen: func(t *rapid.T) C20Case {
			if c20Virtual() {
				return genC20V(t)
			}
			return genC20(t)
		},
		Run: func(c C20Case) core.Outcome {
			if len(c.Virtual) > 0 {
				return runC20V(c)
			}
			return runC20(c)
		},
		Summary: func(c C20Case) interface{} {
			if len(c.Virtual) > 0 {
				return map[string]interface{}{"virtual_timelines": len(c.Virtual), "first": c.Virtual[0]}
			}
			return map[string]interface{}{"timelines": len(c.Lines), "first": c.Lines[:imin(2, len(c.Lines))]}
		},
	})
}
