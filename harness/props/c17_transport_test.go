package props

import (
	"bytes"
	"fmt"
	"io"
	"net"
	"runtime"
	"sync"
	"testing"
	"time"

	"github.com/go-netty/go-netty/transport"
	"pgregory.net/rapid"

	"verif/harness/core"
	"verif/harness/mock"
)

// C17 — transport wrappers preserve the byte stream for every buffering configuration.

type C17Op struct {
	Op    string `json:"op"` // write | writev | flush | read
	Sizes []int  `json:"sizes,omitempty"`
	// Alias (writev): the segments are pieces of one buffer of the caller, handed over in reverse memory order, the
	// first one with spare capacity that covers the others
	Alias bool `json:"alias,omitempty"`
}

type C17Case struct {
	RSize int     `json:"rsize"`
	WSize int     `json:"wsize"`
	Ops   []C17Op `json:"ops"`
	Peer  []int   `json:"peer"`  // fragment sizes in which the peer's bytes arrive
	Drain int     `json:"drain"` // buffer size used to drain the remaining peer bytes at the end
	// EOFData: the connection returns its last fragment together with io.EOF (allowed by io.Reader; TLS does it)
	EOFData bool `json:"eofdata,omitempty"`
	// Duplex: the read operations run on a second goroutine while the first one writes (a transport is used full duplex)
	Duplex bool `json:"duplex,omitempty"`
	// Fault: the K-th write on the connection takes only Take bytes and fails (a write deadline that expired, a
	// transient error); the connection works again afterwards
	Fault *C17Fault `json:"fault,omitempty"`
	// Multi: several transports (slots) of the same buffer sizes live side by side, are closed (also twice) and replaced
	Multi []C17MultiOp `json:"multi,omitempty"`
}

type C17MultiOp struct {
	Slot int    `json:"slot"`
	Op   string `json:"op"` // write | writev | flush | close | reopen
	N    int    `json:"n,omitempty"`
}

type C17Fault struct {
	K    int    `json:"k"`
	Take int    `json:"take"`
	Kind string `json:"kind"` // timeout | plain
}

// memConn is an in-memory net.Conn: it records what is written and serves
// scripted inbound fragments.
type memConn struct {
	rmu, wmu sync.Mutex // a real connection may be read and written at the same time
	got      []byte
	in       [][]byte
	closed   bool
	writes   int
	eofData  bool
	slow     bool
	fault    *C17Fault
	fired    bool
}

func (m *memConn) Read(p []byte) (int, error) {
	m.rmu.Lock()
	defer m.rmu.Unlock()
	if len(p) == 0 {
		return 0, nil
	}
	if len(m.in) == 0 {
		return 0, io.EOF
	}
	n := copy(p, m.in[0])
	if n == len(m.in[0]) {
		m.in = m.in[1:]
	} else {
		m.in[0] = m.in[0][n:]
	}
	if m.eofData && len(m.in) == 0 {
		return n, io.EOF
	}
	return n, nil
}
func (m *memConn) Write(p []byte) (int, error) {
	if m.slow {
		runtime.Gosched() // a write takes a moment: gives a concurrent user of the wrapper the chance to interfere
	}
	m.wmu.Lock()
	defer m.wmu.Unlock()
	if m.closed {
		return 0, net.ErrClosed
	}
	m.writes++
	if m.fault != nil && m.writes == m.fault.K {
		m.fired = true
		n := imin(m.fault.Take, len(p))
		m.got = append(m.got, p[:n]...)
		if m.fault.Kind == "timeout" {
			return n, &mock.NetErr{Msg: "verif: i/o timeout", TO: true}
		}
		return n, fmt.Errorf("verif: transient write failure")
	}
	if m.slow {
		// append in two steps with a pause, as a socket write copies into kernel buffers
		h := len(p) / 2
		m.got = append(m.got, p[:h]...)
		runtime.Gosched()
		m.got = append(m.got, p[h:]...)
		return len(p), nil
	}
	m.got = append(m.got, p...)
	return len(p), nil
}
func (m *memConn) Close() error                       { m.closed = true; return nil }
func (m *memConn) LocalAddr() net.Addr                { return &net.TCPAddr{} }
func (m *memConn) RemoteAddr() net.Addr               { return &net.TCPAddr{} }
func (m *memConn) SetDeadline(t time.Time) error      { return nil }
func (m *memConn) SetReadDeadline(t time.Time) error  { return nil }
func (m *memConn) SetWriteDeadline(t time.Time) error { return nil }

var c17BufSizes = []int{0, 0, 1, 2, 7, 16, 17, 64, 4096}

func genC17(t *rapid.T) C17Case {
	c := C17Case{RSize: rapid.SampledFrom(c17BufSizes).Draw(t, "rsize"), WSize: rapid.SampledFrom(c17BufSizes).Draw(t, "wsize")}
	w := c.WSize
	if w == 0 {
		w = 16
	}
	size := rapid.Custom(func(t *rapid.T) int {
		switch rapid.IntRange(0, 7).Draw(t, "szk") {
		case 0:
			return 0
		case 1:
			return 1
		case 2:
			return imax(0, w-1)
		case 3:
			return w
		case 4:
			return w + 1
		case 5:
			return 3 * w
		default:
			return rapid.IntRange(0, 2*w+3).Draw(t, "sz")
		}
	})
	maxOps := 40
	c.Ops = rapid.SliceOfN(rapid.Custom(func(t *rapid.T) C17Op {
		switch rapid.IntRange(0, 9).Draw(t, "opk") {
		case 0, 1, 2:
			return C17Op{Op: "write", Sizes: []int{size.Draw(t, "n")}}
		case 3, 4, 5:
			if rapid.IntRange(0, 19).Draw(t, "longvec") == 7 {
				// a long vector (a sender batch of a large queue): the number of segments, not their size
				n := rapid.SampledFrom([]int{33, 64, 65, 100, 129, 300}).Draw(t, "nsegs")
				sz := make([]int, n)
				for i := range sz {
					sz[i] = 1 + i%5
				}
				return C17Op{Op: "writev", Sizes: sz}
			}
			return C17Op{Op: "writev", Sizes: rapid.SliceOfN(size, 0, 4).Draw(t, "segs"), Alias: rapid.IntRange(0, 3).Draw(t, "alias") == 0}
		case 6, 7:
			return C17Op{Op: "flush"}
		default:
			return C17Op{Op: "read", Sizes: []int{rapid.IntRange(1, 100).Draw(t, "rn")}}
		}
	}), 1, maxOps).Draw(t, "ops")
	c.Peer = rapid.SliceOfN(rapid.IntRange(1, 70), 0, 12).Draw(t, "peer")
	c.Drain = rapid.SampledFrom([]int{1, 3, 16, 64, 5000}).Draw(t, "drain")
	c.EOFData = rapid.IntRange(0, 3).Draw(t, "eofdata") == 1
	c.Duplex = rapid.IntRange(0, 5).Draw(t, "duplex") == 2
	if rapid.IntRange(0, 9).Draw(t, "multi") == 0 {
		c.Duplex = false
		c.Multi = rapid.SliceOfN(rapid.Custom(func(t *rapid.T) C17MultiOp {
			return C17MultiOp{Slot: rapid.IntRange(0, 2).Draw(t, "slot"),
				Op: rapid.SampledFrom([]string{"write", "write", "writev", "flush", "flush", "close", "close", "reopen"}).Draw(t, "mop"),
				N:  rapid.IntRange(0, 2*w+3).Draw(t, "mn")}
		}), 4, 30).Draw(t, "multiops")
		return c
	}
	if !c.Duplex && rapid.IntRange(0, 3).Draw(t, "fault") == 0 {
		c.Fault = &C17Fault{K: rapid.IntRange(1, 6).Draw(t, "fk"), Take: rapid.IntRange(0, w+3).Draw(t, "ftake"), Kind: rapid.SampledFrom([]string{"timeout", "timeout", "plain"}).Draw(t, "fkind")}
	}
	return c
}

// runC17Multi: three slots, each holding a transport over its own connection; transports are closed (also twice, as a
// deferred Close plus an explicit one do) and replaced. Whatever one transport is told to write reaches its own peer only.
func runC17Multi(c C17Case, variant string, cls *core.ClassSet) (out core.Outcome) {
	type slot struct {
		conn    *memConn
		tr      transport.Transport
		written []byte
		closed  int
	}
	slots := make([]*slot, 3)
	open := func(i int) {
		conn := &memConn{}
		slots[i] = &slot{conn: conn, tr: transport.NewTransport(conn, c.RSize, c.WSize)}
	}
	for i := range slots {
		open(i)
	}
	seq := 0
	mk := func(n int) []byte {
		b := make([]byte, n)
		for i := range b {
			seq++
			b[i] = byte(seq*31 + seq>>8)
		}
		return b
	}
	check := func(k int, when string) *core.Violation {
		for i, s := range slots {
			if !bytes.HasPrefix(s.written, s.conn.got) {
				return core.Viol("C17/peer-bytes-not-a-prefix:"+variant, "op %d (%s): the peer of transport %d has received %d bytes that are not a prefix of the %d bytes written to that transport (first difference at %d): bytes of another transport, or lost ones", k, when, i, len(s.conn.got), len(s.written), firstDiff(s.conn.got, s.written))
			}
		}
		return nil
	}
	doubleClose := false
	for k, op := range c.Multi {
		s := slots[op.Slot]
		switch op.Op {
		case "write":
			if s.closed > 0 {
				continue
			}
			p := mk(op.N)
			if n, err := s.tr.Write(p); err == nil && n == len(p) {
				s.written = append(s.written, p...)
			} else {
				return core.Outcome{Violation: core.Viol("C17/write-result:"+variant, "op %d: Write(%d) on an open transport returned (%d, %v)", k, len(p), n, err)}
			}
		case "writev":
			if s.closed > 0 {
				continue
			}
			a, b := mk(op.N/2), mk(op.N-op.N/2)
			all := append(append([]byte{}, a...), b...)
			if n, err := s.tr.Writev(net.Buffers{a, b}); err == nil && n == int64(len(all)) {
				s.written = append(s.written, all...)
			} else {
				return core.Outcome{Violation: core.Viol("C17/writev-result:"+variant, "op %d: Writev(%d) on an open transport returned (%d, %v)", k, len(all), n, err)}
			}
		case "flush":
			if s.closed > 0 {
				continue
			}
			if err := s.tr.Flush(); err != nil {
				return core.Outcome{Violation: core.Viol("C17/flush-result:"+variant, "op %d: Flush on an open transport returned %v", k, err)}
			}
			if !bytes.Equal(s.conn.got, s.written) {
				return core.Outcome{Violation: core.Viol("C17/flush-incomplete:"+variant, "op %d: after Flush the peer of transport %d has %d of its %d written bytes (first difference at %d)", k, op.Slot, len(s.conn.got), len(s.written), firstDiff(s.conn.got, s.written))}
			}
		case "close":
			_ = s.tr.Close()
			s.closed++
			if s.closed == 2 {
				doubleClose = true
			}
		case "reopen":
			if s.closed == 0 {
				_ = s.tr.Close()
			}
			open(op.Slot)
		}
		if v := check(k, op.Op); v != nil {
			out.Violation = v
			return
		}
	}
	cls.Add("several-transports")
	if doubleClose {
		cls.Add("transport-closed-twice")
		out.NonTrivial = true
	}
	return
}

// runC17Fault: one write on the connection fails after taking part of its bytes. Calls may fail from then on; but
// whenever a Flush reports success, every Write/Writev that reported success is completely at the peer, in call
// order; of a call that reported failure any prefix may be there.
func runC17Fault(c C17Case, conn *memConn, tr transport.Transport, variant string, cls *core.ClassSet) (out core.Outcome) {
	type seg struct {
		b  []byte
		ok bool
	}
	var segs []seg
	seq := 0
	mk := func(n int) []byte {
		b := make([]byte, n)
		for i := range b {
			seq++
			b[i] = byte(seq*31 + seq>>8)
		}
		return b
	}
	failed := false
	judge := func(when string) *core.Violation {
		pos := map[int]bool{0: true}
		for _, sg := range segs {
			next := map[int]bool{}
			for p := range pos {
				if sg.ok {
					if p+len(sg.b) <= len(conn.got) && bytes.Equal(conn.got[p:p+len(sg.b)], sg.b) {
						next[p+len(sg.b)] = true
					}
					continue
				}
				for l := 0; l <= len(sg.b) && p+l <= len(conn.got); l++ {
					if l > 0 && conn.got[p+l-1] != sg.b[l-1] {
						break
					}
					next[p+l] = true
				}
			}
			pos = next
		}
		if !pos[len(conn.got)] {
			okBytes := 0
			for _, sg := range segs {
				if sg.ok {
					okBytes += len(sg.b)
				}
			}
			return core.Viol("C17/flush-after-failure-lost-bytes:"+variant, "%s reported success after an earlier connection write had failed, but the peer's %d bytes are not the successfully written calls (%d bytes) in order with at most a prefix of each failed call in between: bytes of a call that reported success are missing or altered", when, len(conn.got), okBytes)
		}
		return nil
	}
	for i, op := range c.Ops {
		switch op.Op {
		case "write":
			p := mk(op.Sizes[0])
			n, err := tr.Write(p)
			segs = append(segs, seg{b: p, ok: err == nil && n == len(p)})
			if err != nil {
				failed = true
			}
		case "writev":
			var bs net.Buffers
			var all []byte
			for _, n := range op.Sizes {
				b := mk(n)
				bs = append(bs, b)
				all = append(all, b...)
			}
			n, err := tr.Writev(bs)
			segs = append(segs, seg{b: all, ok: err == nil && n == int64(len(all))})
			if err != nil {
				failed = true
			}
		case "flush":
			err := tr.Flush()
			if err != nil {
				failed = true
				continue
			}
			if v := judge(fmt.Sprintf("op %d: Flush", i)); v != nil {
				out.Violation = v
				return
			}
			if failed {
				cls.Add("fault:flush-succeeded-after-a-failure")
				out.NonTrivial = true
			}
		}
	}
	if err := tr.Flush(); err == nil {
		if v := judge("final Flush"); v != nil {
			out.Violation = v
			return
		}
		if failed {
			cls.Add("fault:flush-succeeded-after-a-failure")
		}
	}
	if conn.fired {
		cls.Add("fault:fired:%s", c.Fault.Kind)
		out.NonTrivial = true
		if failed {
			cls.Add("fault:reported-to-caller")
		}
	}
	return
}

func runC17(c C17Case) (out core.Outcome) {
	cls := core.NewClassSet()
	defer func() { out.Classes = cls.List() }()
	variant := "raw"
	switch {
	case c.RSize > 0 && c.WSize > 0:
		variant = "both"
	case c.RSize > 0:
		variant = "read"
	case c.WSize > 0:
		variant = "write"
	}
	cls.Add("variant:%s", variant)
	conn := &memConn{}
	var peer []byte
	for i, n := range c.Peer {
		frag := make([]byte, n)
		for j := range frag {
			frag[j] = byte(len(peer) + j*7 + i)
		}
		peer = append(peer, frag...)
		conn.in = append(conn.in, frag)
	}
	conn.eofData = c.EOFData
	if c.EOFData {
		cls.Add("eof-with-data")
	}
	tr := transport.NewTransport(conn, c.RSize, c.WSize)
	if len(c.Multi) > 0 {
		return runC17Multi(c, variant, cls)
	}
	if c.Duplex {
		return runC17Duplex(c, conn, tr, peer, variant, cls)
	}
	if c.Fault != nil {
		conn.fault = c.Fault
		return runC17Fault(c, conn, tr, variant, cls)
	}
	var written, read []byte
	seq := 0
	mk := func(n int) []byte {
		b := make([]byte, n)
		for i := range b {
			seq++
			b[i] = byte(seq*31 + seq>>8)
		}
		return b
	}
	checkPrefix := func(when string) *core.Violation {
		if !bytes.HasPrefix(written, conn.got) {
			return core.Viol("C17/peer-bytes-not-a-prefix:"+variant, "%s: the peer has received %d bytes that are not a prefix of the %d bytes written (first difference at %d)", when, len(conn.got), len(written), firstDiff(conn.got, written))
		}
		return nil
	}
	pendingBefore := false
	for i, op := range c.Ops {
		switch op.Op {
		case "write":
			p := mk(op.Sizes[0])
			keep := append([]byte{}, p...)
			n, err := tr.Write(p)
			written = append(written, keep...)
			if err != nil || n != len(p) {
				out.Violation = core.Viol("C17/write-result:"+variant, "op %d: Write(%d) returned (%d, %v)", i, len(p), n, err)
				return
			}
			if !bytes.Equal(p, keep) {
				out.Violation = core.Viol("C17/caller-buffer-altered:"+variant, "op %d: Write altered the caller's buffer", i)
				return
			}
			if c.WSize > 0 && len(p) > c.WSize {
				cls.Add("payload-larger-than-buffer")
				out.NonTrivial = true
			}
		case "writev":
			var segs net.Buffers
			var keep [][]byte
			total := 0
			if op.Alias && len(op.Sizes) >= 2 {
				// memory layout: last segment first ... first segment last? no: first segment FIRST in memory with the
				// others behind it in reverse order, so that appending to segment 0 in place overwrites them
				sum := 0
				for _, n := range op.Sizes {
					sum += n
				}
				arena := make([]byte, sum, sum+8)
				offs := make([]int, len(op.Sizes))
				off := op.Sizes[0]
				for j := len(op.Sizes) - 1; j >= 1; j-- {
					offs[j] = off
					off += op.Sizes[j]
				}
				for j, n := range op.Sizes {
					b := arena[offs[j] : offs[j]+n]
					copy(b, mk(n))
					segs = append(segs, b)
					keep = append(keep, append([]byte{}, b...))
					total += n
				}
				cls.Add("writev-aliasing-segments")
			} else {
				for _, n := range op.Sizes {
					b := mk(n)
					segs = append(segs, b)
					keep = append(keep, append([]byte{}, b...))
					total += n
				}
			}
			if len(op.Sizes) > 64 {
				cls.Add("writev-more-than-64-segments")
			}
			own := append([][]byte{}, segs...) // caller's references to the segment contents
			if len(conn.got) < len(written) {
				pendingBefore = true
				cls.Add("writev-while-bytes-pending")
				out.NonTrivial = true
			}
			n, err := tr.Writev(segs)
			for _, k := range keep {
				written = append(written, k...)
			}
			if err != nil || n != int64(total) {
				out.Violation = core.Viol("C17/writev-result:"+variant, "op %d: Writev(%v) returned (%d, %v)", i, op.Sizes, n, err)
				return
			}
			for j := range own {
				if !bytes.Equal(own[j], keep[j]) {
					out.Violation = core.Viol("C17/caller-buffer-altered:"+variant, "op %d: Writev altered the content of segment %d", i, j)
					return
				}
			}
			if c.WSize > 0 && total > c.WSize {
				cls.Add("payload-larger-than-buffer")
				out.NonTrivial = true
			}
		case "flush":
			if err := tr.Flush(); err != nil {
				out.Violation = core.Viol("C17/flush-result:"+variant, "op %d: Flush returned %v", i, err)
				return
			}
			if !bytes.Equal(conn.got, written) {
				out.Violation = core.Viol("C17/flush-incomplete:"+variant, "op %d: after Flush the peer has %d of %d written bytes (first difference at %d)", i, len(conn.got), len(written), firstDiff(conn.got, written))
				return
			}
			cls.Add("flush")
		case "read":
			p := make([]byte, op.Sizes[0])
			n, err := tr.Read(p)
			read = append(read, p[:n]...)
			if err != nil && err != io.EOF {
				out.Violation = core.Viol("C17/read-error:"+variant, "op %d: Read returned %v", i, err)
				return
			}
			if !bytes.HasPrefix(peer, read) {
				out.Violation = core.Viol("C17/read-bytes-differ:"+variant, "op %d: bytes read are not a prefix of the peer's bytes (first difference at %d)", i, firstDiff(read, peer))
				return
			}
		}
		if v := checkPrefix(op.Op); v != nil {
			out.Violation = v
			return
		}
	}
	_ = pendingBefore
	// final flush and drain
	if err := tr.Flush(); err != nil || !bytes.Equal(conn.got, written) {
		out.Violation = core.Viol("C17/flush-incomplete:"+variant, "final Flush: err=%v, the peer has %d of %d written bytes (first difference at %d)", err, len(conn.got), len(written), firstDiff(conn.got, written))
		return
	}
	for k := 0; k < len(peer)+5; k++ {
		p := make([]byte, c.Drain)
		n, err := tr.Read(p)
		read = append(read, p[:n]...)
		if err == io.EOF {
			break
		}
		if err != nil {
			out.Violation = core.Viol("C17/read-error:"+variant, "drain: Read returned %v", err)
			return
		}
	}
	if !bytes.Equal(read, peer) {
		out.Violation = core.Viol("C17/read-bytes-differ:"+variant, "all reads together returned %d bytes, the peer sent %d (first difference at %d)", len(read), len(peer), firstDiff(read, peer))
		return
	}
	if len(c.Peer) > 1 {
		cls.Add("peer-fragmented")
	}
	return
}

// runC17Duplex: the write-side operations run on one goroutine, the reads on another, repeated;
// each direction is still used by one goroutine only, which is how a transport is used by the channel.
func runC17Duplex(c C17Case, conn *memConn, tr transport.Transport, peer []byte, variant string, cls *core.ClassSet) (out core.Outcome) {
	cls.Add("duplex")
	conn.slow = true
	var written, read []byte
	var werr, rerr string
	var wg sync.WaitGroup
	wg.Add(2)
	go func() {
		defer wg.Done()
		seq := 0
		mk := func(n int) []byte {
			b := make([]byte, n)
			for i := range b {
				seq++
				b[i] = byte(seq*31 + seq>>8)
			}
			return b
		}
		for round := 0; round < 20 && werr == ""; round++ {
			for i, op := range c.Ops {
				switch op.Op {
				case "write":
					p := mk(op.Sizes[0])
					written = append(written, p...)
					if n, err := tr.Write(p); err != nil || n != len(p) {
						werr = fmt.Sprintf("round %d op %d: Write(%d) returned (%d, %v)", round, i, len(p), n, err)
					}
				case "writev":
					var segs net.Buffers
					total := 0
					for _, n := range op.Sizes {
						b := mk(n)
						segs = append(segs, b)
						written = append(written, b...)
						total += n
					}
					if n, err := tr.Writev(segs); err != nil || n != int64(total) {
						werr = fmt.Sprintf("round %d op %d: Writev returned (%d, %v)", round, i, n, err)
					}
				case "flush":
					if err := tr.Flush(); err != nil {
						werr = fmt.Sprintf("round %d op %d: Flush returned %v", round, i, err)
					}
				}
				if werr != "" {
					break
				}
			}
		}
		if werr == "" {
			if err := tr.Flush(); err != nil {
				werr = fmt.Sprintf("final Flush returned %v", err)
			}
		}
	}()
	go func() {
		defer wg.Done()
		for k := 0; k < len(peer)+50; k++ {
			p := make([]byte, c.Drain)
			n, err := tr.Read(p)
			read = append(read, p[:n]...)
			if err == io.EOF {
				return
			}
			if err != nil {
				rerr = err.Error()
				return
			}
			runtime.Gosched()
		}
	}()
	wg.Wait()
	conn.wmu.Lock()
	got := append([]byte{}, conn.got...)
	conn.wmu.Unlock()
	switch {
	case werr != "":
		out.Violation = core.Viol("C17/write-result:"+variant, "full-duplex use: %s", werr)
	case rerr != "":
		out.Violation = core.Viol("C17/read-error:"+variant, "full-duplex use: Read returned %s", rerr)
	case !bytes.Equal(got, written):
		out.Violation = core.Viol("C17/flush-incomplete:"+variant, "full-duplex use: after the final Flush the peer has %d bytes, %d were written (first difference at %d)", len(got), len(written), firstDiff(got, written))
	case !bytes.Equal(read, peer):
		out.Violation = core.Viol("C17/read-bytes-differ:"+variant, "full-duplex use: reads returned %d bytes, the peer sent %d (first difference at %d)", len(read), len(peer), firstDiff(read, peer))
	}
	out.NonTrivial = true
	return
}

func firstDiff(a, b []byte) int {
	n := imin(len(a), len(b))
	for i := 0; i < n; i++ {
		if a[i] != b[i] {
			return i
		}
	}
	return n
}

func TestC17(t *testing.T) {
	core.Main(t, core.Prop[C17Case]{
		ID:  "C17",
		Gen: genC17,
		Run: runC17,
	})
}
