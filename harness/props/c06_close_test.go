package props

import (
	"bufio"
	"bytes"
	"fmt"
	"io"
	"net/http"
	"strings"
	"testing"
	"time"

	"github.com/go-netty/go-netty/codec/xhttp"

	"pgregory.net/rapid"

	"verif/harness/core"
)

// C06 — graceful close delivers every payload accepted before Close.

// C06HTTP: one request served by the real xhttp codec + handler adapter; the response is written through
// Channel.Writer() and the codec then closes the channel (request asked to close, or close-delimited response).
type C06HTTP struct {
	ReqClose bool   `json:"req_close"`
	Mode     string `json:"mode"` // cl | none
	Writes   []int  `json:"writes"`
	Flush    bool   `json:"flush"`
	Body     int    `json:"body,omitempty"` // the request carries a body of this many bytes, which the handler does not read
}

func genC06HTTP(t *rapid.T) E1Case {
	var c E1Case
	// blocking mode: on a non-blocking queue a response chunk may legitimately be rejected (queue full),
	// which is not an accepted payload
	genKind(t, &c, []string{"qblock"})
	c.Queue = rapid.SampledFrom([]int{1, 2, 4, 8}).Draw(t, "queue6")
	h := &C06HTTP{Mode: rapid.SampledFrom([]string{"cl", "none"}).Draw(t, "mode")}
	h.ReqClose = h.Mode == "cl" || rapid.Bool().Draw(t, "reqclose")
	h.Writes = rapid.SliceOfN(rapid.SampledFrom([]int{1, 14, 100, 2047, 2048, 2049, 5000}), 1, 3).Draw(t, "writes")
	h.Flush = rapid.Bool().Draw(t, "flush")
	c.HTTP = h
	c.Pipe = "http"
	h.Body = rapid.SampledFrom([]int{0, 0, 5, 300}).Draw(t, "reqbody")
	req := "GET /x HTTP/1.1\r\nHost: h\r\n"
	if h.Body > 0 {
		req = fmt.Sprintf("POST /x HTTP/1.1\r\nHost: h\r\nContent-Length: %d\r\n", h.Body)
	}
	if h.ReqClose {
		req += "Connection: close\r\n"
	}
	req += "\r\n" + strings.Repeat("b", h.Body)
	c.Tasks = []E1Task{{Role: "feeder", Ops: []E1Op{{Op: "feed", Text: req}}}}
	c.Futile = drawFutile(t, []int{0, 0, 1, 2})
	if rapid.Bool().Draw(t, "directed") {
		c.Prefix = []E1Dir{
			{Task: 0, Label: "\x00end"},
			{Task: -2, Label: rapid.SampledFrom([]string{"enqueue.after", "close.won", "close.wait"}).Draw(t, "rl")},
			{Task: -1, Label: rapid.SampledFrom(e1Windows).Draw(t, "win"), Repeat: rapid.IntRange(0, 1).Draw(t, "rep")},
		}
	}
	c.Schedule = genSchedule(t, 120)
	return c
}

func runC06HTTP(c E1Case) (out core.Outcome) {
	h := c.HTTP
	total := 0
	for _, n := range h.Writes {
		total += n
	}
	handler := http.HandlerFunc(func(w http.ResponseWriter, req *http.Request) {
		if h.Mode == "cl" {
			w.Header().Set("Content-Length", fmt.Sprint(total))
		}
		off := 0
		for i, n := range h.Writes {
			_, _ = w.Write(c15RespBody(0, off, n))
			off += n
			if h.Flush && i == 0 {
				w.(http.Flusher).Flush()
			}
		}
	})
	r := newE1(c, xhttp.ServerCodec(), xhttp.Handler(handler))
	defer func() { out.Classes = r.cls.List() }()
	r.execute()
	if r.incon != "" {
		out.Inconclusive = r.incon
		r.sweep(true)
		return
	}
	r.baseClasses()
	r.cls.Add("http-close-path")
	if h.Body > 0 {
		r.cls.Add("http-close-path:request-body-unread")
	}
	defer func() {
		r.sweep(true)
		if out.Violation == nil && r.incon != "" {
			out.Inconclusive = r.incon
		}
	}()
	evs := r.tr.EventsCopy()
	closeIdx := -1
	for i := range evs {
		if evs[i].Kind == "close" && !evs[i].Rejected {
			closeIdx = i
			break
		}
	}
	if closeIdx < 0 {
		out.Violation = core.Viol("C06/http-connection-not-closed", "the request asked to close / the response is close-delimited, but at the terminal state the transport is open (parked: %v)", r.stuck())
		return
	}
	ce := evs[closeIdx]
	stream, _ := r.tr.Accepted()
	flushedAtClose := stream[:imin(ce.Start, len(stream))]
	resp, err := http.ReadResponse(bufio.NewReader(bytes.NewReader(flushedAtClose)), nil)
	var body []byte
	if err == nil {
		body, err = io.ReadAll(resp.Body)
	}
	var want []byte
	off := 0
	for _, n := range h.Writes {
		want = append(want, c15RespBody(0, off, n)...)
		off += n
	}
	if err != nil || !bytes.Equal(body, want) {
		out.Violation = core.Viol("C06/http-response-cut-by-close", "when the transport was closed only %d of %d accepted response bytes had been flushed: the response does not parse completely (err %v, body %d of %d bytes); transport events: %s", len(flushedAtClose), len(stream), err, len(body), len(want), eventsBrief(evs))
		return
	}
	for _, ev := range evs {
		if (ev.Kind == "writev" || ev.Kind == "write") && ev.Seq < ce.Seq && ev.EndSeq > ce.Seq {
			out.Violation = core.Viol("C06/closed-during-batch", "the transport was closed while the sender was inside Writev")
			return
		}
	}
	if r.closeOverlapSender {
		out.NonTrivial = true
		r.cls.Add("close-overlaps-sender")
	}
	return
}

// genBacklog: a sustained backlog. One writer keeps the queue non-empty for many rounds of one and the same sender
// activation: whenever the sender is inside a transport write, the writer queues the next packets. Whatever a sender
// does differently on its 10th, 16th or 32nd consecutive round shows here. Ends with a Close (C06) or without (C01/C02).
func genBacklog(t *rapid.T, withClose bool) E1Case {
	var c E1Case
	c.Kind = "qblock"
	c.Queue = rapid.SampledFrom([]int{2, 2, 3}).Draw(t, "bqueue")
	c.Buffered = rapid.Bool().Draw(t, "buffered")
	rounds := rapid.SampledFrom([]int{18, 20, 34, 40}).Draw(t, "rounds")
	task := E1Task{Role: "writer"}
	for i := 0; i < 2*rounds+4; i++ {
		task.Ops = append(task.Ops, E1Op{Op: rapid.SampledFrom([]string{"write1", "write1", "writev"}).Draw(t, "entry"), Sizes: []int{1 + i%7}})
	}
	c.Tasks = []E1Task{task}
	c.Prefix = []E1Dir{{Task: 0, Label: "enqueue.after"}, {Task: 0, Label: "enqueue.after"}}
	for i := 0; i < rounds; i++ {
		c.Prefix = append(c.Prefix, E1Dir{Task: -1, Label: rapid.SampledFrom([]string{"t.writev", "send.afterWritev"}).Draw(t, "bwhere")},
			E1Dir{Task: 0, Label: "enqueue.after"}, E1Dir{Task: 0, Label: "enqueue.after"})
	}
	if withClose {
		c.Tasks = append(c.Tasks, E1Task{Role: "closer", After: []int{0}, Ops: []E1Op{{Op: "close", Err: rapid.SampledFrom(closeErrKinds).Draw(t, "cerr")}}})
		c.Futile = drawFutile(t, []int{0, 1, 2})
	}
	c.Schedule = genSchedule(t, 200)
	return c
}

func genC06(t *rapid.T) E1Case {
	if rapid.IntRange(0, 5).Draw(t, "http") == 0 {
		return genC06HTTP(t)
	}
	if rapid.IntRange(0, 29).Draw(t, "backlog") == 13 {
		return genBacklog(t, true)
	}
	var c E1Case
	genKind(t, &c, []string{"qblock", "qblock", "qnonblock"})
	c.Queue = rapid.SampledFrom([]int{1, 1, 2, 2, 3, 4, 6}).Draw(t, "queue6")
	nw := rapid.IntRange(1, 3).Draw(t, "writers")
	var after []int
	for w := 0; w < nw; w++ {
		task := E1Task{Role: "writer"}
		nc := rapid.IntRange(1, 4).Draw(t, "calls")
		for i := 0; i < nc; i++ {
			op := genWriteOp(t, e1Entries)
			for k := range op.Sizes {
				if op.Sizes[k] > 5000 {
					op.Sizes[k] = 1 + op.Sizes[k]%7
				}
			}
			task.Ops = append(task.Ops, op)
		}
		c.Tasks = append(c.Tasks, task)
		after = append(after, w)
	}
	closeOp := E1Op{Op: "close", Err: rapid.SampledFrom(closeErrKinds).Draw(t, "cerr")}
	cancelFirst := rapid.IntRange(0, 3).Draw(t, "cancelfirst") == 0 // the parent context ends first (what Shutdown does)
	if rapid.IntRange(0, 3).Draw(t, "selfclose") == 0 {
		// the last writer closes the channel itself, once the others are done
		last := &c.Tasks[nw-1]
		last.Ops = append(last.Ops, closeOp)
		if nw > 1 {
			// its close must still come after every other writer finished: split it into its own task
			last.Ops = last.Ops[:len(last.Ops)-1]
			c.Tasks = append(c.Tasks, E1Task{Role: "closer", After: after, Ops: []E1Op{closeOp}})
		}
	} else {
		c.Tasks = append(c.Tasks, E1Task{Role: "closer", After: after, Ops: []E1Op{closeOp}})
	}
	if last := &c.Tasks[len(c.Tasks)-1]; cancelFirst && last.Role == "closer" {
		last.Ops = append([]E1Op{{Op: "cancelparent"}}, last.Ops...)
	}
	c.Futile = drawFutile(t, []int{0, 0, 0, 1, 1, 2})
	if rapid.IntRange(0, 1).Draw(t, "directed") == 0 {
		w0 := rapid.IntRange(0, nw-1).Draw(t, "pw0")
		w1 := rapid.IntRange(0, nw-1).Draw(t, "pw1")
		c.Prefix = []E1Dir{
			{Task: w0, Label: "enqueue.after"},
			{Task: w0, Label: rapid.SampledFrom([]string{"call.begin", "enqueue.after", "enqueue.before"}).Draw(t, "pl0")},
			{Task: -1, Label: rapid.SampledFrom(e1Windows).Draw(t, "win"), Repeat: rapid.IntRange(0, 1).Draw(t, "rep")},
			{Task: w1, Label: "\x00end"}, // run this writer to its end (or until it blocks)
		}
		if rapid.Bool().Draw(t, "allwriters") {
			for w := 0; w < nw; w++ {
				c.Prefix = append(c.Prefix, E1Dir{Task: w, Label: "\x00end"})
			}
			c.Prefix = append(c.Prefix, E1Dir{Task: len(c.Tasks) - 1, Label: rapid.SampledFrom([]string{"close.won", "close.wait", "close.beforeTransportClose", "t.close"}).Draw(t, "cl")})
		}
	}
	c.Schedule = genSchedule(t, 120)
	return c
}

func runC06(c E1Case) (out core.Outcome) {
	if c.HTTP != nil {
		return runC06HTTP(c)
	}
	r := newE1(c)
	defer func() { out.Classes = r.cls.List() }()
	r.execute()
	if r.incon != "" {
		out.Inconclusive = r.incon
		r.sweep(true)
		return
	}
	r.baseClasses()
	if n := r.maxSenderRounds(); n >= 16 {
		r.cls.Add("sender-activation-with>=16-rounds")
	}
	if ov := r.tr.WriteOverlap(); ov != "" {
		out.Violation = core.Viol("C06/transport-write-calls-overlap", "%s: two senders are at work at once, so Close cannot know when the batch it waits for is over", ov)
		r.sweep(true)
		return
	}
	if msg := r.escapedPanic(); msg != "" {
		out.Inconclusive = "panic escaped an API call: " + msg
		r.sweep(true)
		return
	}
	defer func() {
		r.sweep(true)
		if out.Violation == nil && r.incon != "" {
			out.Inconclusive = r.incon
		}
	}()
	if len(r.closeCalls) != 1 || r.closeCalls[0].Begin == 0 {
		return // the closer never ran (a writer is stuck): nothing to judge here (C02/C18)
	}
	cl := r.closeCalls[0]
	r.cls.Add("untilwrite:%v", c.Kind == "qblock")
	for _, t := range c.Tasks {
		for _, op := range t.Ops {
			if op.Op == "cancelparent" {
				r.cls.Add("parent-cancelled-before-close")
			}
		}
	}
	// was a sender task alive when Close began?
	var closeEv *int
	evs := r.tr.EventsCopy()
	for i := range evs {
		if evs[i].Kind == "close" && !evs[i].Rejected {
			i := i
			closeEv = &i
			break
		}
	}
	if cl.End == 0 || closeEv == nil {
		if cl.End == 0 {
			out.Violation = core.Viol("C06/close-never-returned", "Close began but did not return at the terminal state (parked: %v)", r.stuck())
		}
		return
	}
	ce := evs[*closeEv]
	stream, _ := r.tr.Accepted()
	p, v := r.parseStream(stream)
	if v != nil {
		v.Sig = "C06/" + v.Sig[len("stream/"):]
		out.Violation = v
		return
	}
	if c.Kind != "qblock" && graceExhausted() && r.pollsNoSender == 0 {
		// no-sleep stage only: the schedule stalled the sender for the whole grace period of a bounded-wait
		// channel; the statement exempts that
		r.cls.Add("nosleep:grace-period-exhausted")
		return
	}
	if c.Kind != "qblock" && cl.TaskPtr != nil && cl.TaskPtr.RunWall >= 900*time.Millisecond {
		// the closer itself has spent the grace period of a bounded-wait channel in real time (a Close that waits on a
		// timer or a signal instead of polling: nobody else runs while it does) — "the sender is stalled beyond the
		// documented grace period" as far as this Close can tell; the statement exempts that
		r.cls.Add("grace-period-spent-in-real-time")
		return
	}
	if virtSlept() > 0 {
		r.cls.Add("nosleep:close-waited")
		if virtSlept() >= 300*time.Millisecond {
			r.cls.Add("nosleep:close-waited>=3-polls")
		}
	}
	in := map[int]bool{}
	for _, id := range p.order {
		in[id] = true
	}
	for _, w := range r.calls {
		if !isWriteOp(w.Op.Op) || !w.ok() || len(w.Payload) == 0 || w.End > cl.Begin {
			continue
		}
		window := ""
		for _, s := range r.senders() {
			if s.Visits["send.afterRelease"] > 0 {
				window = " (a sender passed its release point)"
			}
		}
		switch {
		case !in[w.ID]:
			sig := "C06/accepted-payload-lost"
			out.Violation = core.Viol(sig, "call #%d (%s, %d bytes) returned success before Close was invoked, but its payload never reached the transport%s; transport events: %s", w.ID, w.Op.Op, len(w.Payload), window, eventsBrief(evs))
			return
		case p.endOff[w.ID] > ce.Start:
			out.Violation = core.Viol("C06/accepted-payload-not-flushed-before-close", "call #%d (%s) was accepted before Close, but only %d bytes were flushed when the transport was closed and its payload ends at %d", w.ID, w.Op.Op, ce.Start, p.endOff[w.ID])
			return
		}
	}
	for _, ev := range evs {
		if (ev.Kind == "writev" || ev.Kind == "write") && ev.Seq < ce.Seq && ev.EndSeq > ce.Seq {
			out.Violation = core.Viol("C06/closed-during-batch", "the transport was closed while the sender was inside Writev (writev seq %d..%d, close seq %d)", ev.Seq, ev.EndSeq, ce.Seq)
			return
		}
	}
	// non-trivial: Close began while a sender task existed and had not ended
	for _, s := range r.senders() {
		_ = s
	}
	if r.closeOverlapSender {
		out.NonTrivial = true
		r.cls.Add("close-overlaps-sender")
	}
	for l := range r.closerSawSenderAt {
		r.cls.Add("closer-stepped-while-sender-at:%s", l)
	}
	return
}

func eventsBrief(evs []mockTEvent) string {
	s := ""
	for _, e := range evs {
		if e.Kind == "read" || e.Kind == "deadline" {
			continue
		}
		s += e.Kind
		if e.Rejected {
			s += "(rejected)"
		}
		s += " "
	}
	return s
}

func TestC06(t *testing.T) {
	core.Main(t, core.Prop[E1Case]{
		ID:      "C06",
		Gen:     genC06,
		Run:     runC06,
		Summary: summarizeE1,
	})
}
