package props

import (
	"bytes"
	"context"
	"fmt"
	"io"
	"strings"
	"sync"
	"testing"
	"time"

	netty "github.com/go-netty/go-netty"
	"pgregory.net/rapid"

	"verif/harness/core"
	"verif/harness/mock"
	"verif/harness/wire"
)

// C04 — frame codecs round-trip or reject; boundaries exact under any fragmentation.

type C04Frame struct {
	Len     int    `json:"len"`
	Seed    int    `json:"seed"`
	Carrier string `json:"carrier"` // how the payload is handed to the encoder
}

type C04Case struct {
	Codec      wire.Codec `json:"codec"`
	Frames     []C04Frame `json:"frames"`
	Cuts       []int      `json:"cuts"`
	End        string     `json:"end"`               // fragmenter end behaviour after the last frame (eof|eofdata)
	UseEncoder bool       `json:"use_encoder"`       // frames from the shipped encoder (else reference framer)
	Channel    bool       `json:"channel"`           // run through a real channel + read loop
	Consume    string     `json:"consume,omitempty"` // how the consumer reads a message: "" readall | copy | tobytes
	Hold       bool       `json:"hold,omitempty"`    // the next outbound handler keeps every emitted message and serialises them only after the last encode
	Zero       int        `json:"zero,omitempty"`    // every Zero-th transport read returns (0, nil)
	Arena      bool       `json:"arena,omitempty"`   // the caller keeps all payloads back to back in one buffer and hands sub-slices (with spare capacity) to the encoder
}

var c04Carriers = []string{"bytes", "string", "buffer", "breader", "sreader", "bb", "reader", "short", "breader-used", "sreader-used"}

// payloadBytes builds a deterministic payload; for delimiter codecs it is made
// admissible (first delimiter occurrence in payload+delimiter at len(payload)).
func payloadBytes(c wire.Codec, n, seed int) (p []byte, repaired bool) {
	p = make([]byte, n)
	x := uint32(seed)*2654435761 + 12345
	for i := range p {
		x = x*1664525 + 1013904223
		p[i] = byte(x >> 24)
	}
	if c.Kind == "delim" {
		// hard mode for odd seeds: draw from the delimiter's own alphabet plus a few others
		if seed%2 == 1 {
			alpha := append(append([]byte{}, c.Delim...), 'x', 'y')
			for i := range p {
				p[i] = alpha[int(p[i])%len(alpha)]
			}
		}
		full := append(append([]byte{}, p...), c.Delim...)
		if bytes.Index(full, c.Delim) != len(p) {
			repaired = true
			for i := range p {
				if bytes.IndexByte(c.Delim, p[i]) >= 0 {
					p[i] = 'z'
				}
			}
			if bytes.IndexByte(c.Delim, 'z') >= 0 { // delimiter contains 'z' (never generated)
				for i := range p {
					p[i] = 'q'
				}
			}
		}
	}
	return p, repaired
}

type shortReader struct {
	data []byte
	step int
	// empty: every fragment is preceded by one read that returns (0, nil) (allowed by io.Reader, never twice in a row)
	empty     bool
	lastEmpty bool
	// eofData: the last fragment is returned together with io.EOF (allowed by io.Reader; TLS connections and pipes do it)
	eofData bool
	// pause: called at the start of every Read (a source may block: other goroutines run meanwhile)
	pause func()
}

func (s *shortReader) Read(p []byte) (int, error) {
	if s.pause != nil {
		s.pause()
	}
	if s.empty && !s.lastEmpty && len(p) > 0 {
		s.lastEmpty = true
		return 0, nil
	}
	s.lastEmpty = false
	if len(s.data) == 0 {
		return 0, io.EOF
	}
	n := s.step
	if n > len(p) {
		n = len(p)
	}
	if n > len(s.data) {
		n = len(s.data)
	}
	copy(p, s.data[:n])
	s.data = s.data[n:]
	if s.eofData && len(s.data) == 0 {
		return n, io.EOF
	}
	return n, nil
}

type plainReader struct{ r io.Reader }

func (p plainReader) Read(b []byte) (int, error) { return p.r.Read(b) }

func carrierOf(kind string, p []byte, seed int) interface{} {
	switch kind {
	case "string":
		return string(p)
	case "buffer":
		return bytes.NewBuffer(append([]byte{}, p...))
	case "breader":
		return bytes.NewReader(append([]byte{}, p...))
	case "sreader":
		return strings.NewReader(string(p))
	case "breader-used", "sreader-used":
		// a reader the application has already read a tag from: the message is what is left unread
		tag := []byte("tag:")[:1+seed%4]
		all := append(append([]byte{}, tag...), p...)
		var r interface {
			io.Reader
			Len() int
		}
		if kind == "breader-used" {
			r = bytes.NewReader(all)
		} else {
			r = strings.NewReader(string(all))
		}
		_, _ = io.ReadFull(r, make([]byte, len(tag)))
		return r
	case "bb":
		k := 0
		if len(p) > 0 {
			k = seed % (len(p) + 1)
		}
		return [][]byte{append([]byte{}, p[:k]...), {}, append([]byte{}, p[k:]...)}
	case "reader":
		return plainReader{bytes.NewReader(append([]byte{}, p...))}
	case "short":
		return &shortReader{data: append([]byte{}, p...), step: 1 + seed%7}
	}
	return append([]byte{}, p...)
}

// carrierShared hands the encoder the caller's own memory: p is a sub-slice of a larger buffer whose spare
// capacity holds the caller's next payloads.
func carrierShared(kind string, p []byte, seed int) interface{} {
	switch kind {
	case "bytes":
		return p
	case "bb":
		k := 0
		if len(p) > 0 {
			k = seed % (len(p) + 1)
		}
		return [][]byte{p[:k], {}, p[k:]}
	}
	return carrierOf(kind, p, seed)
}

func genCodec(t *rapid.T, smallMax bool) wire.Codec {
	var c wire.Codec
	switch rapid.IntRange(0, 11).Draw(t, "ckind") {
	case 0, 1, 2:
		c.Kind = "lf"
	case 3, 4, 5:
		c.Kind = "prep"
	case 6, 7:
		c.Kind = "varint"
	case 8, 9, 10:
		c.Kind = "delim"
	default:
		c.Kind = "fixed"
	}
	switch c.Kind {
	case "lf":
		c.Width = rapid.SampledFrom([]int{1, 2, 4, 8}).Draw(t, "width")
		c.Little = rapid.Bool().Draw(t, "little")
		c.OwnOrder = rapid.IntRange(0, 3).Draw(t, "ownorder") == 0
		if rapid.Bool().Draw(t, "plain") {
			// the configuration the shipped encoder serves
		} else {
			c.Off = rapid.IntRange(0, 6).Draw(t, "off")
			c.Adj = rapid.IntRange(-8, 8).Draw(t, "adj")
		}
		c.Strip = rapid.IntRange(0, c.Off+c.Width+4).Draw(t, "strip")
		if rapid.Bool().Draw(t, "nostrip") {
			c.Strip = 0
		}
	case "prep":
		c.Width = rapid.SampledFrom([]int{1, 2, 4, 8}).Draw(t, "width")
		c.Little = rapid.Bool().Draw(t, "little")
		c.OwnOrder = rapid.IntRange(0, 3).Draw(t, "ownorder") == 0
		c.IncLen = rapid.Bool().Draw(t, "inclen")
		switch rapid.IntRange(0, 5).Draw(t, "adjk") {
		case 0, 1:
			c.Adj = 0
		case 2, 3:
			c.Adj = rapid.IntRange(-8, 8).Draw(t, "adj")
		default:
			// put the length-field capacity boundary within reach of small payloads
			cap := int64(1) << (8 * uint(imin(c.Width, 5)))
			c.Adj = int(cap) - rapid.IntRange(0, 600).Draw(t, "adjb")
		}
		c.Strip = rapid.IntRange(0, c.Width+4).Draw(t, "strip")
		if rapid.Bool().Draw(t, "nostrip") {
			c.Strip = 0
		}
	case "delim":
		alpha := []byte{'a', 'b', '\r', '\n', 0}
		n := rapid.IntRange(1, 4).Draw(t, "dlen")
		for i := 0; i < n; i++ {
			c.Delim = append(c.Delim, alpha[rapid.IntRange(0, len(alpha)-1).Draw(t, "dch")])
		}
		c.StripD = rapid.Bool().Draw(t, "stripd")
	case "fixed":
		c.Fixed = rapid.SampledFrom([]int{1, 2, 3, 7, 16, 255, 256, 1023, 1024, 1025, 2048, 4097}).Draw(t, "fixed")
	}
	_ = smallMax
	return c
}

func imin(a, b int) int {
	if a < b {
		return a
	}
	return b
}

var c04Sizes = []int{0, 0, 1, 1, 2, 3, 7, 15, 16, 17, 100, 254, 255, 256, 257, 300, 1023, 1024, 1025, 2047, 2048, 2049, 4096, 65534, 65535, 65536, 65537}

func genC04(t *rapid.T) C04Case {
	c := C04Case{Codec: genCodec(t, false)}
	cd := &c.Codec
	c.UseEncoder = rapid.IntRange(0, 3).Draw(t, "useenc") != 0
	nf := rapid.IntRange(1, 6).Draw(t, "nframes")
	budget := 200000
	minLen := 0
	if cd.Kind == "lf" {
		minLen = imax(imax(0, cd.Adj), cd.Strip-cd.HeaderLen())
	}
	if cd.Kind == "prep" {
		minLen = imax(0, cd.Strip-cd.Width)
	}
	for i := 0; i < nf; i++ {
		var n int
		switch {
		case cd.Kind == "fixed":
			n = cd.Fixed
		case rapid.IntRange(0, 3).Draw(t, "szk") == 0:
			n = rapid.IntRange(0, 40).Draw(t, "len")
		default:
			n = rapid.SampledFrom(c04Sizes).Draw(t, "len")
		}
		if n < minLen {
			n = minLen
		}
		if n > budget {
			n = rapid.IntRange(minLen, imax(minLen, 64)).Draw(t, "lenb")
		}
		budget -= n
		c.Frames = append(c.Frames, C04Frame{Len: n, Seed: rapid.IntRange(0, 1000).Draw(t, "seed"),
			Carrier: rapid.SampledFrom(c04Carriers).Draw(t, "carrier")})
	}
	// max: exactly the largest frame, a little above, or generous
	biggest := 0
	for _, f := range c.Frames {
		total := f.Len
		switch cd.Kind {
		case "lf", "prep":
			total += cd.HeaderLen()
			if cd.Kind == "prep" {
				total = f.Len + cd.Width
			}
		case "delim":
			total += len(cd.Delim)
		}
		biggest = imax(biggest, total)
	}
	switch rapid.IntRange(0, 2).Draw(t, "maxk") {
	case 0:
		cd.Max = biggest
	case 1:
		cd.Max = biggest + rapid.IntRange(1, 9).Draw(t, "maxd")
	default:
		cd.Max = 1 << 20
	}
	if cd.Kind == "lf" && cd.Max < cd.Off+cd.Width {
		cd.Max = cd.Off + cd.Width
	}
	if cd.Max < 1 {
		cd.Max = 1
	}
	// fragmentation
	switch rapid.IntRange(0, 3).Draw(t, "cutk") {
	case 0:
		c.Cuts = []int{1}
	case 1:
		c.Cuts = nil // whole stream in one read
	default:
		c.Cuts = rapid.SliceOfN(rapid.IntRange(1, 40), 1, 30).Draw(t, "cuts")
		if rapid.Bool().Draw(t, "bigtail") {
			c.Cuts = append(c.Cuts, rapid.IntRange(100, 5000).Draw(t, "tail"))
		}
	}
	c.End = "eof"
	if rapid.IntRange(0, 3).Draw(t, "eofdata") == 1 {
		// the last transport read returns its bytes together with io.EOF (io.Reader allows it; TLS and pipes do it)
		c.End = "eofdata"
	}
	c.Channel = rapid.IntRange(0, 49).Draw(t, "layer") == 0
	c.Consume = rapid.SampledFrom([]string{"", "", "copy", "tobytes"}).Draw(t, "consume")
	c.Hold = rapid.IntRange(0, 3).Draw(t, "hold") == 0
	c.Arena = rapid.IntRange(0, 3).Draw(t, "arena") == 0
	c.Zero = rapid.SampledFrom([]int{0, 0, 0, 2, 3, 7}).Draw(t, "zero")
	return c
}

// judgeEncoder checks one emitted frame against the reference framer.
func judgeEncoder(cd wire.Codec, payload, emitted []byte) *core.Violation {
	j := cd
	j.Strip, j.StripD = 0, true
	st := j.RefDecode(emitted, true)
	hl := 0
	if cd.Kind == "lf" || cd.Kind == "prep" {
		hl = j.HeaderLen()
		if cd.Kind == "prep" {
			hl = j.Width
		}
	}
	ok := st.Status == wire.OK && st.Consumed == len(emitted) && len(st.Msg) >= hl && bytes.Equal(st.Msg[hl:], payload)
	if ok {
		return nil
	}
	sig := "C04/encoder-frame-inconsistent:" + cd.Kind
	if cd.Kind == "lf" || cd.Kind == "prep" {
		l := int64(len(payload)) - int64(cd.DecAdj())
		if !wire.Fits(cd.Width, l) {
			sig = "C04/prepender-length-overflow"
		}
	}
	return core.Viol(sig, "encoder emitted %d bytes (head % x) for a %d-byte payload; reference decode of the emitted frame: %s %s consumed=%d msglen=%d",
		len(emitted), emitted[:imin(len(emitted), 12)], len(payload), st.Status, st.Why, st.Consumed, len(st.Msg))
}

func runC04(c C04Case) (out core.Outcome) {
	cls := core.NewClassSet()
	defer func() { out.Classes = cls.List() }()
	cd := c.Codec
	cls.Add("codec:%s", cd.Kind)
	cls.Add("consume:%s", c.Consume)
	if cd.Width > 0 {
		cls.Add("width:%d", cd.Width)
	}
	var dec netty.InboundHandler
	var enc netty.OutboundHandler
	if p := mock.Catch(func() { dec, enc = cd.Build() }); p != nil {
		return core.Outcome{Inconclusive: fmt.Sprintf("bad case: constructor rejected configuration: %v", p)}
	}

	var stream []byte
	var ends []int
	var want [][]byte
	type heldMsg struct {
		m     interface{}
		snap  []byte
		frame int
	}
	var held []heldMsg
	defer func() {
		if out.Violation != nil || out.Inconclusive != "" {
			return
		}
		for _, h := range held {
			now, _ := wire.Flatten(h.m)
			if !bytes.Equal(now, h.snap) {
				out.Violation = core.Viol("C04/emitted-frame-changed-later:"+cd.Kind, "the message emitted for frame %d held % x when it was handed on, and holds % x after later frames were encoded: the encoder reuses memory it has passed downstream", h.frame, h.snap[:imin(12, len(h.snap))], now[:imin(12, len(now))])
				return
			}
		}
		if len(held) > 1 {
			cls.Add("held-frames")
		}
	}()
	// arena mode: every payload lives in one buffer of the caller, back to back, followed by a guard zone
	var arena, pristine []byte
	var arenaOff []int
	if c.Arena {
		for _, f := range c.Frames {
			pl, _ := payloadBytes(cd, f.Len, f.Seed)
			arenaOff = append(arenaOff, len(arena))
			arena = append(arena, pl...)
		}
		arenaOff = append(arenaOff, len(arena))
		arena = append(arena, bytes.Repeat([]byte{0xEE}, 24)...)
		arena = append(make([]byte, 0, len(arena)), arena...) // exact capacity
		pristine = append([]byte{}, arena...)
		cls.Add("arena")
	}
	for i, f := range c.Frames {
		payload, repaired := payloadBytes(cd, f.Len, f.Seed)
		if repaired {
			cls.Add("delim-payload-repaired")
		}
		cls.Add("carrier:%s", f.Carrier)
		ref, refErr := cd.RefEncode(payload, []byte{0xA5, 0x5A, 0xC3, 0x3C, 0x96, 0x69})
		admissible := refErr == nil
		if admissible && (cd.Kind == "lf" || cd.Kind == "prep" || cd.Kind == "delim") && len(ref) > cd.Max {
			admissible = false
		}
		if admissible && cd.Kind == "varint" && len(payload) > cd.Max {
			admissible = false
		}
		if admissible && (cd.Kind == "lf" || cd.Kind == "prep") && cd.Strip > len(ref) {
			admissible = false
		}
		var frameBytes []byte
		if c.UseEncoder && enc != nil {
			cls.Add("encoder:shipped")
			var emitted []byte
			var got bool
			ctx := &mock.Ctx{OnWrite: func(m netty.Message) {
				b, err := wire.Flatten(m)
				if err != nil {
					panic(fmt.Sprintf("harness: cannot flatten encoder output %T: %v", m, err))
				}
				emitted = append(emitted, b...)
				got = true
				if c.Hold {
					switch m.(type) {
					case []byte, [][]byte:
						// the next handler keeps the message (e.g. a batching handler): it must still hold the same bytes later
						held = append(held, heldMsg{m: m, snap: append([]byte{}, b...), frame: i})
					}
				}
			}}
			msg := carrierOf(f.Carrier, payload, f.Seed)
			if c.Arena {
				msg = carrierShared(f.Carrier, arena[arenaOff[i]:arenaOff[i+1]], f.Seed)
			}
			pv := mock.Catch(func() { enc.HandleWrite(ctx, msg) })
			if c.Arena && !bytes.Equal(arena, pristine) {
				d := firstDiff(arena, pristine)
				out.Violation = core.Viol("C04/encoder-wrote-into-callers-buffer:"+cd.Kind, "frame %d (%d bytes, carrier %s): after the encoder returned, the caller's buffer differs at offset %d (%d bytes behind the payload): % x, was % x — the payloads the caller keeps behind this one are no longer what it will send", i, len(payload), f.Carrier, d, d-arenaOff[i+1], arena[d:imin(len(arena), d+8)], pristine[d:imin(len(pristine), d+8)])
				return
			}
			switch {
			case pv != nil && refErr == nil && (cd.Kind != "varint" || len(payload) <= cd.Max):
				out.Violation = core.Viol("C04/encoder-rejects-admissible:"+cd.Kind, "frame %d: encoder raised %v for an encodable %d-byte payload (carrier %s)", i, pv, len(payload), f.Carrier)
				return
			case pv != nil:
				cls.Add("encoder-rejected-unencodable")
				out.NonTrivial = true
				return // nothing more to decode: the frame does not exist
			case !got:
				out.Violation = core.Viol("C04/encoder-emitted-nothing:"+cd.Kind, "frame %d: encoder neither raised nor forwarded a message", i)
				return
			}
			if v := judgeEncoder(cd, payload, emitted); v != nil {
				out.Violation = v
				return
			}
			if refErr != nil {
				// consistent although the reference thought it unencodable: cannot happen (judge uses the same rule)
				out.Inconclusive = "harness: encoder consistent for a payload the reference cannot encode"
				return
			}
			frameBytes = emitted
			if (cd.Kind == "lf" || cd.Kind == "prep") && !bytes.Equal(emitted, ref[len(ref)-len(emitted):]) && cd.Off == 0 {
				out.Inconclusive = "harness: shipped encoder and reference framer disagree although both decode"
				return
			}
		} else {
			cls.Add("encoder:reference")
			if refErr != nil {
				cls.Add("frame-unencodable-skipped")
				continue
			}
			frameBytes = ref
		}
		if !admissible {
			// valid frame that this decoder configuration must reject: C08's domain
			cls.Add("frame-inadmissible-skipped")
			continue
		}
		j := cd
		st := j.RefDecode(frameBytes, false)
		if st.Status != wire.OK || st.Consumed != len(frameBytes) {
			out.Inconclusive = fmt.Sprintf("harness: reference decoder does not accept its own admissible frame: %s %s", st.Status, st.Why)
			return
		}
		stream = append(stream, frameBytes...)
		ends = append(ends, len(stream))
		want = append(want, append([]byte{}, st.Msg...))
		// boundary classes
		if cd.Kind == "lf" || cd.Kind == "prep" {
			l := int64(len(payload)) - int64(cd.DecAdj())
			capv := int64(1) << (8 * uint(imin(cd.Width, 7)))
			if cd.Width < 8 && l >= capv-2 {
				cls.Add("length-field-at-capacity")
			}
		}
		if len(frameBytes) == cd.Max || (cd.Kind == "varint" && len(payload) == cd.Max) {
			cls.Add("frame-at-max")
		}
	}
	if len(want) == 0 {
		return
	}

	if c.Channel {
		return runC04Channel(c, cd, stream, ends, want, cls)
	}

	fr := &wire.Fragmenter{Data: stream, Cuts: c.Cuts, End: c.End, Zero: c.Zero}
	if c.Zero > 0 {
		cls.Add("empty-reads")
	}
	cutInside := false
	{
		pos, fi := 0, 0
		sim := &wire.Fragmenter{Data: stream, Cuts: c.Cuts, End: "eof"}
		_ = sim
		// a cut is "inside" a frame when some scripted read boundary falls strictly between frame boundaries
		acc := 0
		for k := 0; acc < len(stream); k++ {
			sz := len(stream)
			if len(c.Cuts) > 0 {
				sz = c.Cuts[imin(k, len(c.Cuts)-1)]
			}
			acc += sz
			for fi < len(ends) && ends[fi] < acc {
				fi++
			}
			if acc < len(stream) && (fi >= len(ends) || ends[fi] != acc) {
				cutInside = true
				break
			}
			if k > len(stream) {
				break
			}
		}
		_ = pos
	}
	if len(c.Cuts) == 1 && c.Cuts[0] == 1 {
		cls.Add("one-byte-reads")
	}

	for k := range want {
		var got []byte
		var delivered int
		ctx := &mock.Ctx{OnRead: func(m netty.Message) {
			delivered++
			d := consumeMessageAs(m, c.Consume)
			if d.err != nil {
				panic(fmt.Sprintf("consumer: reading delivered message failed: %v", d.err))
			}
			got = d.data
		}}
		pv := mock.Catch(func() { dec.HandleRead(ctx, fr) })
		if pv != nil {
			out.Violation = core.Viol("C04/decoder-rejects-admissible:"+cd.Kind, "frame %d of %d: decoder raised %v on an admissible stream (pos %d)", k, len(want), pv, fr.Pos())
			return
		}
		if delivered != 1 {
			out.Violation = core.Viol("C04/decoder-delivery-count:"+cd.Kind, "frame %d: decoder delivered %d messages in one HandleRead", k, delivered)
			return
		}
		if !bytes.Equal(got, want[k]) {
			out.Violation = core.Viol("C04/decoder-wrong-message:"+cd.Kind, "frame %d: delivered %d bytes (% x...), want %d bytes (% x...)", k, len(got), got[:imin(8, len(got))], len(want[k]), want[k][:imin(8, len(want[k]))])
			return
		}
		if fr.Pos() != ends[k] {
			out.Violation = core.Viol("C04/decoder-boundary:"+cd.Kind, "frame %d: decoder consumed up to offset %d, frame ends at %d", k, fr.Pos(), ends[k])
			return
		}
	}
	if len(want) >= 2 {
		cls.Add("multi-frame")
	}
	if cutInside {
		cls.Add("cut-inside-frame")
	}
	out.NonTrivial = len(want) >= 2 && cutInside
	return
}

func TestC04(t *testing.T) {
	core.Main(t, core.Prop[C04Case]{
		ID:  "C04",
		Gen: genC04,
		Run: runC04,
	})
}

// chanRig is a real channel on the mock transport with an inline executor
// (real goroutine for the read loop).
type chanRig struct {
	tr    *mock.Transport
	ex    *mock.InlineExec
	ch    netty.Channel
	pl    netty.Pipeline
	excs  []error
	inact []error
	mu    sync.Mutex
	// keepOpen: the exception probe swallows exceptions instead of closing the channel
	keepOpen bool
}

func newChanRigDeferred(queue int, deferSender bool, handlers ...netty.Handler) *chanRig {
	return newChanRigWith(queue, &mock.InlineExec{Defer: deferSender}, handlers...)
}

func newChanRig(queue int, handlers ...netty.Handler) *chanRig {
	return newChanRigWith(queue, &mock.InlineExec{}, handlers...)
}

func newChanRigWith(queue int, ex *mock.InlineExec, handlers ...netty.Handler) *chanRig {
	r := &chanRig{tr: mock.NewTransport(nil, false, nil), ex: ex}
	r.pl = netty.NewPipeline()
	factory := netty.NewChannel()
	if queue > 0 {
		factory = netty.NewAsyncWriteChannel(queue, true)
	}
	r.ch = factory(1, context.Background(), r.pl, r.tr, r.ex)
	for _, h := range handlers {
		r.pl.AddLast(h)
	}
	r.pl.AddLast(netty.ExceptionHandlerFunc(func(ctx netty.ExceptionContext, ex netty.Exception) {
		r.mu.Lock()
		r.excs = append(r.excs, ex)
		keep := r.keepOpen
		r.mu.Unlock()
		if !keep {
			ctx.Close(ex)
		}
	}), netty.InactiveHandlerFunc(func(ctx netty.InactiveContext, ex netty.Exception) {
		r.mu.Lock()
		r.inact = append(r.inact, ex)
		r.mu.Unlock()
	}))
	r.pl.ServeChannel(r.ch)
	return r
}

func (r *chanRig) exceptions() []error {
	r.mu.Lock()
	defer r.mu.Unlock()
	return append([]error(nil), r.excs...)
}

// quiesce waits until the read loop is parked waiting for data, or the channel
// was closed and the read loop has ended.
func (r *chanRig) quiesce(timeout time.Duration) bool {
	if !r.tr.WaitReadParked(timeout) {
		return false
	}
	if r.tr.IsClosed() {
		done := make(chan struct{})
		go func() { r.ex.WG.Wait(); close(done) }()
		select {
		case <-done:
		case <-time.After(timeout):
			return false
		}
	}
	return true
}

func (r *chanRig) shutdown() {
	r.ex.RunDeferred()
	r.ch.Close(nil)
	r.ex.WG.Wait()
}

func runC04Channel(c C04Case, cd wire.Codec, stream []byte, ends []int, want [][]byte, cls *core.ClassSet) (out core.Outcome) {
	cls.Add("layer:channel")
	var mu sync.Mutex
	var got [][]byte
	consumer := netty.InboundHandlerFunc(func(ctx netty.InboundContext, m netty.Message) {
		b, err := wire.Flatten(m)
		if err != nil {
			panic(fmt.Errorf("consumer: %w", err))
		}
		mu.Lock()
		got = append(got, b)
		mu.Unlock()
	})
	dec, _ := cd.Build()
	rig := newChanRig(0, dec, consumer)
	defer rig.shutdown()
	// feed the stream in the scripted fragments
	pos := 0
	for k := 0; pos < len(stream); k++ {
		sz := len(stream)
		if len(c.Cuts) > 0 {
			sz = c.Cuts[imin(k, len(c.Cuts)-1)]
		}
		if sz > len(stream)-pos {
			sz = len(stream) - pos
		}
		rig.tr.Feed(stream[pos : pos+sz])
		pos += sz
	}
	if !rig.quiesce(10 * time.Second) {
		out.Inconclusive = "channel layer: read loop did not become idle within 10 s"
		return
	}
	if ex := rig.exceptions(); len(ex) > 0 {
		out.Violation = core.Viol("C04/decoder-rejects-admissible:"+cd.Kind, "channel layer: exception %v on an admissible stream", ex[0])
		return
	}
	mu.Lock()
	defer mu.Unlock()
	if len(got) != len(want) {
		out.Violation = core.Viol("C04/decoder-delivery-count:"+cd.Kind, "channel layer: %d messages delivered, want %d", len(got), len(want))
		return
	}
	for k := range want {
		if !bytes.Equal(got[k], want[k]) {
			out.Violation = core.Viol("C04/decoder-wrong-message:"+cd.Kind, "channel layer: frame %d: delivered %d bytes, want %d", k, len(got[k]), len(want[k]))
			return
		}
	}
	out.NonTrivial = len(want) >= 2 && len(c.Cuts) > 0
	return
}

// wireNone is the zero codec configuration (plain pseudo-random payloads).
var wireNone = wire.Codec{}

var bgCtx = context.Background()
