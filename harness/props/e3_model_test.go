package props

import (
	"context"
	"errors"
	"fmt"
	"io"
	"net"
	"sync"
	"time"

	netty "github.com/go-netty/go-netty"
	"github.com/go-netty/go-netty/transport"

	"verif/harness/mock"
)

// E3: pipeline reference model (plain slice + index arithmetic) and handler programs.

const (
	kActive = iota
	kRead
	kWrite
	kException
	kInactive
	kEvent
)

var kindNames = []string{"active", "read", "write", "exception", "inactive", "event"}

// HAct is one action a handler performs when it receives an event of kind On.
type HAct struct {
	On  int    `json:"on"`
	Do  string `json:"do"`            // ctxwrite | ctxtrigger | chwrite | chtrigger | ctxclose | panic
	Arg string `json:"arg,omitempty"` // panic: value kind (error string runtime timeout neterr wrapped-neterr stringer-error)
}

// HSpec describes one handler instance.
type HSpec struct {
	Ifaces uint8  `json:"i"`           // bit k set: implements the handler interface of kind k
	Stop   uint8  `json:"s,omitempty"` // bit k set: does not forward events of kind k
	Acts   []HAct `json:"a,omitempty"`
}

type BuildOp struct {
	Op  string `json:"op"` // first | last | at
	Pos int    `json:"pos,omitempty"`
	H   []int  `json:"h"` // indices into the handler pool (repeats allowed)
}

type E3Event struct {
	Entry string `json:"entry"` // fire | chwrite | chtrigger | readloop | ctxwrite | ctxtrigger | close
	Kind  int    `json:"kind,omitempty"`
	At    int    `json:"at,omitempty"` // ctxwrite/ctxtrigger: pipeline position of the context
	// chwrite/ctxwrite (C07): the message is an io.Reader over the same bytes: "eof" (data, then (0, io.EOF)) or
	// "eofdata" (the data together with io.EOF). The head streams it; a failing transport write is a failure all the same.
	Reader string `json:"reader,omitempty"`
}

// e3ReaderMsg is a streamed message that the recording handlers name by its content.
type e3ReaderMsg struct {
	text    string
	data    []byte
	eofData bool
}

func (m *e3ReaderMsg) String() string { return m.text }

func (m *e3ReaderMsg) Read(p []byte) (int, error) {
	if len(m.data) == 0 {
		return 0, io.EOF
	}
	n := copy(p, m.data)
	m.data = m.data[n:]
	if m.eofData && len(m.data) == 0 {
		return n, io.EOF
	}
	return n, nil
}

func e3WriteMsg(text, reader string) interface{} {
	if reader == "" {
		return []byte(text)
	}
	return &e3ReaderMsg{text: text, data: []byte(text), eofData: reader == "eofdata"}
}

// LateBuild is a pipeline-building operation applied after event After (sequentially, between events).
type LateBuild struct {
	After int     `json:"after"`
	Op    BuildOp `json:"op"`
}

type E3Case struct {
	Handlers []HSpec      `json:"handlers"`
	Build    []BuildOp    `json:"build"`
	Late     []LateBuild  `json:"late,omitempty"`
	Events   []E3Event    `json:"events"`
	Queue    int          `json:"queue,omitempty"`
	Faults   []mock.Fault `json:"faults,omitempty"`
	// HTTPPanic (C07): instead of generated handlers, the shipped HTTP server codec and handler adapter; the http.Handler
	// panics with this kind of value while serving a request (error | string | stringer-error | abort = http.ErrAbortHandler)
	HTTPPanic string `json:"httppanic,omitempty"`
}

// trace -------------------------------------------------------------------

type e3Ev struct {
	H    int    // handler instance (pool index); -2 head write; -3 tail close; -4 transport close
	Pos  int    // model: pipeline position
	Kind int    // event kind
	Msg  string // payload id
	ctx  netty.HandlerContext
	err  error // exception/inactive payload object (real side)
}

func (e e3Ev) String() string {
	switch e.H {
	case -2:
		return fmt.Sprintf("wire(%s)", e.Msg)
	case -3:
		return fmt.Sprintf("tail-close(%s)", e.Msg)
	case -4:
		return "transport-close"
	}
	return fmt.Sprintf("h%d.%s(%s)", e.H, kindNames[e.Kind], e.Msg)
}

// panic values ---------------------------------------------------------------

type e3Panic struct {
	kind string
	n    int
}

// makePanicValue builds the value a handler panics with. Values that are errors keep their identity.
func makePanicValue(kind string, n int) interface{} {
	switch kind {
	case "string":
		return fmt.Sprintf("verif panic string #%d", n)
	case "timeout":
		return &mock.NetErr{Msg: fmt.Sprintf("verif panic timeout #%d", n), TO: true}
	case "neterr":
		return &mock.NetErr{Msg: fmt.Sprintf("verif panic neterr #%d", n)}
	case "wrapped-neterr":
		return fmt.Errorf("verif wrapped #%d: %w", n, &mock.NetErr{Msg: "inner net error"})
	case "stringer-error":
		return &stringerErr{n: n}
	case "runtime":
		return "runtime" // placeholder: the real side provokes a genuine runtime error
	}
	return fmt.Errorf("verif panic error #%d", n)
}

// stringerErr is an error whose type also has a String method with another text (like *exec.ExitError or generated
// protobuf error types): it is an error, so the exception must be this very value.
type stringerErr struct{ n int }

func (e *stringerErr) Error() string  { return fmt.Sprintf("verif panic stringer-error #%d", e.n) }
func (e *stringerErr) String() string { return fmt.Sprintf("STRINGER<%d>", e.n) }

func panicText(kind string, n int) string {
	if kind == "runtime" {
		return "assignment to entry in nil map"
	}
	v := makePanicValue(kind, n)
	if e, ok := v.(error); ok {
		return e.Error()
	}
	return fmt.Sprint(v)
}

// closesOnNetErr: invokeMethod closes the channel for non-timeout net.Errors.
func closesOnNetErr(kind string) bool { return kind == "neterr" || kind == "wrapped-neterr" }

// model ----------------------------------------------------------------------

type e3MH struct {
	inst int // pool index; -100 head; -101 tail; -1 decoder
	spec HSpec
}

type e3Model struct {
	hs        []e3MH
	trace     []e3Ev
	closed    bool
	closeMsg  string
	depth     int
	nextAct   int
	nextPanic int
	unknown   bool // the model met a situation the property does not constrain (accept any real behaviour from here)
	// headWrite, when set, replaces the plain "accept the bytes" behaviour of the head (transport fault plans)
	headWrite func(msg string)
}

type modelPanic struct {
	kind string
	n    int
	text string
	// closedErr: the head handler raised because the channel is closed
	closedErr bool
}

func newE3Model() *e3Model {
	return &e3Model{hs: []e3MH{{inst: -100, spec: HSpec{Ifaces: 1 << kWrite}}, {inst: -101, spec: HSpec{Ifaces: 1 << kException}}}}
}

func (m *e3Model) size() int { return len(m.hs) }

func (m *e3Model) insertAfter(idx int, hs []e3MH) {
	out := append([]e3MH{}, m.hs[:idx+1]...)
	out = append(out, hs...)
	m.hs = append(out, m.hs[idx+1:]...)
}

// build applies one pipeline-building operation; it reports whether the real call must panic.
func (m *e3Model) build(op BuildOp, pool []HSpec) (mustPanic bool) {
	var hs []e3MH
	for _, i := range op.H {
		if pool[i].Ifaces&63 == 0 {
			mustPanic = true
		}
		hs = append(hs, e3MH{inst: i, spec: pool[i]})
	}
	if op.Op == "at" && op.Pos >= m.size() {
		mustPanic = true
	}
	if mustPanic {
		return true
	}
	switch op.Op {
	case "first":
		for _, h := range hs { // one at a time: the last one ends up first
			m.insertAfter(0, []e3MH{h})
		}
	case "last":
		m.insertAfter(m.size()-2, hs)
	default:
		if op.Pos == -1 || op.Pos == m.size()-1 {
			m.insertAfter(m.size()-2, hs)
		} else {
			m.insertAfter(op.Pos, hs)
		}
	}
	return false
}

func (m *e3Model) implements(i, kind int) bool { return m.hs[i].spec.Ifaces>>uint(kind)&1 == 1 }

func (m *e3Model) inbound(kind, from int, msg string) {
	for i := from + 1; i < m.size(); i++ {
		if m.implements(i, kind) {
			m.invoke(i, kind, msg)
			return
		}
	}
}

func (m *e3Model) outbound(from int, msg string) {
	for i := from - 1; i >= 0; i-- {
		if m.implements(i, kWrite) {
			m.invoke(i, kWrite, msg)
			return
		}
	}
}

func (m *e3Model) invoke(i, kind int, msg string) {
	h := m.hs[i]
	switch h.inst {
	case -100: // head: low-level write
		if m.closed {
			// the low-level write is refused with some non-nil error (which one is not specified)
			panic(modelPanic{kind: "error", text: "*", closedErr: true})
		}
		if m.headWrite != nil {
			m.headWrite(msg)
			return
		}
		m.trace = append(m.trace, e3Ev{H: -2, Msg: msg})
		return
	case -101: // tail: close on unhandled exception
		m.trace = append(m.trace, e3Ev{H: -3, Msg: msg})
		m.close(msg)
		return
	case -1: // decoder: invisible, forwards
		m.inbound(kind, i, msg)
		return
	}
	m.trace = append(m.trace, e3Ev{H: h.inst, Pos: i, Kind: kind, Msg: msg})
	for _, a := range h.spec.Acts {
		if a.On != kind || m.depth >= 3 {
			continue
		}
		func() {
			m.depth++
			defer func() { m.depth-- }()
			m.act(i, a)
		}()
	}
	if h.spec.Stop>>uint(kind)&1 == 1 {
		return
	}
	if kind == kWrite {
		m.outbound(i, msg)
	} else {
		m.inbound(kind, i, msg)
	}
}

func (m *e3Model) act(i int, a HAct) {
	switch a.Do {
	case "ctxwrite":
		m.nextAct++
		m.ctxWrite(i, fmt.Sprintf("w:a%d", m.nextAct))
	case "ctxtrigger":
		m.nextAct++
		m.ctxTrigger(i, fmt.Sprintf("e:a%d", m.nextAct))
	case "chwrite":
		m.nextAct++
		m.chWrite(fmt.Sprintf("w:a%d", m.nextAct))
	case "chtrigger":
		m.nextAct++
		m.chTrigger(fmt.Sprintf("e:a%d", m.nextAct))
	case "ctxclose":
		m.nextAct++
		m.close(fmt.Sprintf("x:close%d", m.nextAct))
	case "panic":
		m.nextPanic++
		panic(modelPanic{kind: a.Arg, n: m.nextPanic, text: panicText(a.Arg, m.nextPanic)})
	}
}

// guarded runs fn behind a recover boundary; it returns the recovered model panic.
func (m *e3Model) guarded(fn func()) (mp *modelPanic) {
	defer func() {
		if p := recover(); p != nil {
			if v, ok := p.(modelPanic); ok {
				mp = &v
				return
			}
			panic(p)
		}
	}()
	fn()
	return nil
}

// ctxWrite / ctxTrigger: recover -> FireChannelException (no closed check, no close).
func (m *e3Model) ctxWrite(i int, msg string) {
	if mp := m.guarded(func() { m.outbound(i, msg) }); mp != nil {
		m.fireException(mp)
	}
}

func (m *e3Model) ctxTrigger(i int, msg string) {
	if mp := m.guarded(func() { m.inbound(kEvent, i, msg) }); mp != nil {
		m.fireException(mp)
	}
}

func (m *e3Model) fireException(mp *modelPanic) {
	m.inbound(kException, 0, mp.msg())
}

// msg is the payload id of the exception a panic is converted to (see msgMatches).
func (mp *modelPanic) msg() string {
	switch {
	case mp.text == "*":
		return "x:*"
	case mp.kind == "string":
		return "x:~" + mp.text
	}
	return "x:" + mp.text
}

// invokeMethod: recover -> (if open) FireChannelException, then close on non-timeout net.Error.
func (m *e3Model) invokeMethod(fn func()) {
	if mp := m.guarded(fn); mp != nil {
		if m.closed {
			return
		}
		before := len(m.trace)
		wasClosed := m.closed
		m.fireException(mp)
		if closesOnNetErr(mp.kind) {
			if !m.closed && !wasClosed {
				// a handler consumed a non-timeout net.Error raised through a channel entry point: the code
				// closes the channel anyway today; the property is silent about it, so both outcomes are accepted
				_ = before
				m.unknown = true
			}
			m.close(mp.msg())
		}
	}
}

func (m *e3Model) chWrite(msg string) {
	if m.closed {
		return // Channel.Write returns the close error
	}
	m.invokeMethod(func() { m.outbound(m.size(), msg) })
}

func (m *e3Model) chTrigger(msg string) {
	m.invokeMethod(func() { m.inbound(kEvent, 0, msg) })
}

func (m *e3Model) close(msg string) {
	if m.closed {
		return
	}
	m.closed = true
	m.closeMsg = msg
	m.trace = append(m.trace, e3Ev{H: -4})
	m.invokeMethod(func() { m.inbound(kInactive, 0, msg) })
}

// real side ---------------------------------------------------------------------

type e3Rig struct {
	tr        *mock.Transport
	ex        *mock.InlineExec
	ch        netty.Channel
	pl        netty.Pipeline
	mu        sync.Mutex
	trace     []e3Ev
	depth     int
	nextAct   int
	nextPanic int
	pool      []netty.Handler
	errs      map[string]error // text -> error object raised (identity checks)
	escaped   []string         // panics that escaped an API call made by a handler action
}

type e3Base struct {
	id   int
	spec HSpec
	rig  *e3Rig
}

type e3Decoder struct{ rig *e3Rig }

func (d *e3Decoder) HandleRead(ctx netty.InboundContext, m netty.Message) {
	if tr, ok := m.(transport.Transport); ok {
		var b [1]byte
		if _, err := tr.Read(b[:]); err != nil {
			panic(err)
		}
		ctx.HandleRead(fmt.Sprintf("r:%d", b[0]))
		return
	}
	ctx.HandleRead(m)
}

func msgID(m interface{}) string {
	switch v := m.(type) {
	case []byte:
		return string(v)
	case string:
		return v
	case error:
		if v == nil {
			return "x:<nil>"
		}
		return "x:" + v.Error()
	case nil:
		return "x:<nil>"
	}
	return fmt.Sprintf("%v", m)
}

func (b *e3Base) record(kind int, ctx netty.HandlerContext, m interface{}) {
	ev := e3Ev{H: b.id, Kind: kind, Msg: msgID(m), ctx: ctx}
	if e, ok := m.(error); ok {
		ev.err = e
	}
	b.rig.mu.Lock()
	b.rig.trace = append(b.rig.trace, ev)
	b.rig.mu.Unlock()
}

func (b *e3Base) acts(kind int, ctx netty.HandlerContext) {
	r := b.rig
	for _, a := range b.spec.Acts {
		if a.On != kind || r.depth >= 3 {
			continue
		}
		r.depth++
		func() {
			defer func() { r.depth-- }()
			switch a.Do {
			case "ctxwrite":
				r.nextAct++
				ctx.Write([]byte(fmt.Sprintf("w:a%d", r.nextAct)))
			case "ctxtrigger":
				r.nextAct++
				ctx.Trigger(fmt.Sprintf("e:a%d", r.nextAct))
			case "chwrite":
				r.nextAct++
				_ = ctx.Channel().Write([]byte(fmt.Sprintf("w:a%d", r.nextAct)))
			case "chtrigger":
				r.nextAct++
				ctx.Channel().Trigger(fmt.Sprintf("e:a%d", r.nextAct))
			case "ctxclose":
				r.nextAct++
				err := fmt.Errorf("close%d", r.nextAct)
				r.errs["x:"+err.Error()] = err
				ctx.Close(err)
			case "panic":
				r.nextPanic++
				if a.Arg == "runtime" {
					var mm map[string]int
					mm["boom"] = 1 // genuine runtime error
				}
				v := makePanicValue(a.Arg, r.nextPanic)
				if e, ok := v.(error); ok {
					r.errs["x:"+e.Error()] = e
				}
				panic(v)
			}
		}()
	}
}

func (b *e3Base) stops(kind int) bool { return b.spec.Stop>>uint(kind)&1 == 1 }

func (b *e3Base) onActive(ctx netty.ActiveContext) {
	b.record(kActive, ctx, "")
	b.acts(kActive, ctx)
	if !b.stops(kActive) {
		ctx.HandleActive()
	}
}
func (b *e3Base) onRead(ctx netty.InboundContext, m netty.Message) {
	b.record(kRead, ctx, m)
	b.acts(kRead, ctx)
	if !b.stops(kRead) {
		ctx.HandleRead(m)
	}
}
func (b *e3Base) onWrite(ctx netty.OutboundContext, m netty.Message) {
	b.record(kWrite, ctx, m)
	b.acts(kWrite, ctx)
	if !b.stops(kWrite) {
		ctx.HandleWrite(m)
	}
}
func (b *e3Base) onException(ctx netty.ExceptionContext, ex netty.Exception) {
	b.record(kException, ctx, ex)
	b.acts(kException, ctx)
	if !b.stops(kException) {
		ctx.HandleException(ex)
	}
}
func (b *e3Base) onInactive(ctx netty.InactiveContext, ex netty.Exception) {
	var m interface{} = ex
	if ex == nil {
		m = nil
	}
	b.record(kInactive, ctx, m)
	b.acts(kInactive, ctx)
	if !b.stops(kInactive) {
		ctx.HandleInactive(ex)
	}
}
func (b *e3Base) onEvent(ctx netty.EventContext, ev netty.Event) {
	b.record(kEvent, ctx, ev)
	b.acts(kEvent, ctx)
	if !b.stops(kEvent) {
		ctx.HandleEvent(ev)
	}
}

func newE3Rig(c E3Case) *e3Rig {
	r := &e3Rig{tr: mock.NewTransport(nil, false, c.Faults), ex: &mock.InlineExec{}, errs: map[string]error{}}
	r.pl = netty.NewPipeline()
	factory := netty.NewChannel()
	if c.Queue > 0 {
		factory = netty.NewAsyncWriteChannel(c.Queue, true)
	}
	r.ch = factory(1, context.Background(), r.pl, r.tr, r.ex)
	for i, spec := range c.Handlers {
		r.pool = append(r.pool, newE3Handler(spec.Ifaces, &e3Base{id: i, spec: spec, rig: r}))
	}
	return r
}

// realBuild applies a build operation to the real pipeline; it reports whether the call panicked.
func (r *e3Rig) realBuild(op BuildOp) (panicked bool) {
	var hs []netty.Handler
	for _, i := range op.H {
		hs = append(hs, r.pool[i])
	}
	pv := mock.Catch(func() {
		switch op.Op {
		case "first":
			r.pl.AddFirst(hs...)
		case "last":
			r.pl.AddLast(hs...)
		default:
			r.pl.AddHandler(op.Pos, hs...)
		}
	})
	return pv != nil
}

// wireTrace converts what the mock transport saw into trace entries appended at the right places:
// the real trace gets its wire/close entries from the transport's event log merged by order of occurrence.
func (r *e3Rig) snapshot() []e3Ev {
	r.mu.Lock()
	defer r.mu.Unlock()
	return append([]e3Ev(nil), r.trace...)
}

// settle waits until the read loop is parked waiting for data or, if the channel
// was closed, until the read loop has ended (so that every event it delivers is recorded).
func (r *e3Rig) settle() bool {
	if !r.tr.WaitReadParked(10 * time.Second) {
		return false
	}
	if r.tr.IsClosed() {
		done := make(chan struct{})
		go func() { r.ex.WG.Wait(); close(done) }()
		select {
		case <-done:
		case <-time.After(10 * time.Second):
			return false
		}
	}
	return true
}

// call runs fn on its own goroutine and waits for it; stuck reports that it did not
// return within a very generous bound (the goroutine is then abandoned).
func (r *e3Rig) call(fn func()) (escaped interface{}, stuck bool) {
	done := make(chan interface{}, 1)
	go func() { done <- mock.Catch(fn) }()
	select {
	case p := <-done:
		return p, false
	case <-time.After(15 * time.Second):
		return nil, true
	}
}

func (r *e3Rig) shutdown() {
	r.ch.Close(nil)
	done := make(chan struct{})
	go func() { r.ex.WG.Wait(); close(done) }()
	select {
	case <-done:
	case <-time.After(10 * time.Second):
	}
}

var _ = errors.New
var _ net.Error = (*mock.NetErr)(nil)
