package props

import (
	"bytes"
	"encoding/binary"
	"fmt"
	"testing"

	netty "github.com/go-netty/go-netty"
	"github.com/go-netty/go-netty/codec/format"
	"github.com/go-netty/go-netty/codec/frame"
	"pgregory.net/rapid"

	"verif/harness/core"
	"verif/harness/wire"
)

// C09 — a message's bytes are contiguous on the wire under concurrent writers.

const c09IDBase = 0x80

// "arena": []byte messages that are adjacent records of one buffer of the application (each slice's spare capacity
// is the next writer's record)
var c09Carriers = []string{"bytes", "arena", "bb", "buffer", "breader", "wtN", "reader", "short"}

// multiWrite reports whether the head handler turns this message into more than
// one low-level write (the two classes of the recorded findings).
func c09MultiWrite(pipe, carrier string, size int) string {
	switch pipe {
	case "lf", "lf4", "varint":
		return "" // these encoders collect the body and emit one [][]byte
	case "delim", "delim+text":
		if carrier == "bytes" || carrier == "arena" {
			return ""
		}
		return "reader" // MultiReader(body, delimiter): two reads, two writes
	}
	switch carrier {
	case "wtN":
		if size > 1 {
			return "writerto"
		}
	case "reader":
		if size > 1024 {
			return "reader"
		}
	case "short":
		if size > 1 {
			return "reader"
		}
	}
	return ""
}

func genC09(t *rapid.T) E1Case {
	var c E1Case
	genKind(t, &c, []string{"sync", "qblock", "qblock", "qnonblock"})
	if c.Kind == "qnonblock" {
		c.Queue = 8 // a rejected chunk in the middle of a streamed message is not this property's subject
	}
	c.Pipe = rapid.SampledFrom([]string{"", "", "delim", "delim+text", "lf", "lf4", "varint"}).Draw(t, "pipe")
	known := core.KnownSigs("C09")
	if rapid.IntRange(0, 149).Draw(t, "hugeframe") == 71 {
		// one framed message of more than a megabyte among small ones from another writer
		c.Pipe = "lf4"
		if c.Kind != "sync" {
			c.Kind, c.Queue = "qblock", 4
		}
		c.Tasks = []E1Task{
			{Role: "writer", Ops: []E1Op{{Op: "write", Carrier: "bytes", Sizes: []int{rapid.SampledFrom([]int{1048577, 1200000}).Draw(t, "hugesize")}}}},
			{Role: "writer", Ops: []E1Op{{Op: "write", Carrier: "bytes", Sizes: []int{3}}, {Op: "write", Carrier: "bytes", Sizes: []int{100}}}},
		}
		c.Schedule = genSchedule(t, 60)
		for i := range c.Schedule {
			if i%2 == 0 {
				c.Schedule[i] = 1
			}
		}
		return c
	}
	nw := rapid.IntRange(2, 4).Draw(t, "writers")
	for w := 0; w < nw; w++ {
		task := E1Task{Role: "writer"}
		for i := rapid.IntRange(1, 4).Draw(t, "calls"); i > 0; i-- {
			carrier := rapid.SampledFrom(c09Carriers).Draw(t, "carrier")
			if c.Pipe == "delim+text" {
				carrier = "string"
			}
			size := rapid.SampledFrom([]int{1, 2, 3, 17, 100, 1000, 1023, 1024, 1025, 1500, 2048, 2500}).Draw(t, "size")
			switch mw := c09MultiWrite(c.Pipe, carrier, size); {
			case mw == "reader" && known["C09/reader-message-multi-write"], mw == "writerto" && known["C09/writerto-multi-write"]:
				// listed finding: keep it out of the concurrent mix so that other breakages stay visible
				c.Excluded++
				if c.Pipe == "delim+text" {
					c.Pipe = "delim"
				}
				carrier = "bytes"
			}
			task.Ops = append(task.Ops, E1Op{Op: "write", Carrier: carrier, Sizes: []int{size}})
		}
		c.Tasks = append(c.Tasks, task)
	}
	c.Schedule = genSchedule(t, 200)
	// switch more often: interleaving is the point
	for i := range c.Schedule {
		if i%3 == 0 && c.Schedule[i] == 0 && rapid.IntRange(0, 2).Draw(t, "extra") == 0 {
			c.Schedule[i] = 1
		}
	}
	return c
}

func c09Handlers(pipe string) []netty.Handler {
	switch pipe {
	case "delim":
		return []netty.Handler{frame.DelimiterCodec(1<<20, "\r\n", true)}
	case "delim+text":
		return []netty.Handler{frame.DelimiterCodec(1<<20, "\r\n", true), format.TextCodec()}
	case "lf":
		return []netty.Handler{frame.LengthFieldCodec(binary.BigEndian, 1<<20, 0, 2, 0, 2)}
	case "lf4":
		return []netty.Handler{frame.LengthFieldCodec(binary.BigEndian, 4<<20, 0, 4, 0, 4)}
	case "varint":
		return []netty.Handler{frame.VarintLengthFieldCodec(1 << 20)}
	}
	return nil
}

func c09Ref(pipe string) *wire.Codec {
	switch pipe {
	case "delim", "delim+text":
		return &wire.Codec{Kind: "delim", Delim: []byte("\r\n"), StripD: true, Max: 1 << 20}
	case "lf":
		return &wire.Codec{Kind: "lf", Width: 2, Strip: 2, Max: 1 << 20}
	case "lf4":
		return &wire.Codec{Kind: "lf", Width: 4, Strip: 4, Max: 4 << 20}
	case "varint":
		return &wire.Codec{Kind: "varint", Max: 1 << 20}
	}
	return nil
}

func runC09(c E1Case) (out core.Outcome) {
	r := newE1(c, c09Handlers(c.Pipe)...)
	r.idBase = c09IDBase
	out.Excluded = c.Excluded
	defer func() { out.Classes = r.cls.List() }()
	r.execute()
	if r.incon != "" {
		out.Inconclusive = r.incon
		r.sweep(true)
		return
	}
	r.baseClasses()
	r.cls.Add("pipe:%s", c.Pipe)
	defer func() {
		r.sweep(true)
		if out.Violation == nil && r.incon != "" {
			out.Inconclusive = r.incon
		}
	}()
	if msg := r.escapedPanic(); msg != "" {
		out.Inconclusive = "panic escaped an API call: " + msg
		return
	}
	if ov := r.tr.WriteOverlap(); ov != "" {
		// a transport is not safe for concurrent use (the shipped ones are bufio writers over a connection): a Flush by
		// one writer during a Write by another one duplicates, drops or splits message bytes on a real transport
		out.Violation = core.Viol("C09/transport-write-calls-overlap", "%s: the writers are not serialised around the whole transport access", ov)
		return
	}
	for _, cl := range r.calls {
		if cl.Op.Op == "write" {
			r.cls.Add("carrier:%s", cl.Op.Carrier)
			if mw := c09MultiWrite(c.Pipe, cl.Op.Carrier, len(cl.Payload)); mw != "" {
				r.cls.Add("multi-write-message:%s", mw)
			}
		}
	}
	// did low-level writes of different writers alternate?
	order := r.enqOrder
	if c.Kind == "sync" {
		order = nil
		for _, ev := range r.tr.EventsCopy() {
			if ev.Kind == "write" || ev.Kind == "writev" {
				order = append(order, ev.Task)
			}
		}
	}
	alternations := 0
	for i := 1; i < len(order); i++ {
		if order[i] != order[i-1] {
			alternations++
		}
	}
	if alternations >= 2 {
		out.NonTrivial = true
		r.cls.Add("writers-alternate")
	}

	blame := func(id int, what string, a ...interface{}) *core.Violation {
		call := r.byID[id]
		sig := "C09/message-interleaved"
		if call != nil {
			switch c09MultiWrite(c.Pipe, call.Op.Carrier, len(call.Payload)) {
			case "reader":
				sig = "C09/reader-message-multi-write"
			case "writerto":
				sig = "C09/writerto-multi-write"
			default:
				sig = fmt.Sprintf("C09/message-interleaved:%s:%s", c.Pipe, call.Op.Carrier)
			}
		}
		return core.Viol(sig, what, a...)
	}

	stream, _ := r.tr.Accepted()
	if ref := c09Ref(c.Pipe); ref != nil {
		pos := 0
		seen := map[int]bool{}
		for pos < len(stream) {
			st := ref.RefDecode(stream[pos:], false)
			if st.Status != wire.OK {
				id := int(stream[pos]) - c09IDBase
				if ref.Kind != "delim" {
					id = 0
				}
				out.Violation = blame(id, "wire offset %d: the byte stream does not continue with a well-formed frame (%s %s); bytes of different messages interleaved", pos, st.Status, st.Why)
				return
			}
			body := st.Msg
			if len(body) == 0 {
				out.Violation = core.Viol("C09/empty-frame", "wire offset %d: empty frame (no message is empty)", pos)
				return
			}
			id := int(body[0]) - c09IDBase
			call := r.byID[id]
			if call == nil || call.Op.Op != "write" {
				out.Violation = blame(0, "wire offset %d: frame does not start with the first byte of any written message", pos)
				return
			}
			if !bytes.Equal(body, call.Payload) {
				out.Violation = blame(id, "wire offset %d: frame of message #%d (task %d, %s, %d bytes) has %d bytes and differs at %d: foreign bytes inside a message", pos, id, call.Task, call.Op.Carrier, len(call.Payload), len(body), firstDiff(body, call.Payload))
				return
			}
			if seen[id] {
				out.Violation = core.Viol("C09/message-duplicated", "message #%d is on the wire twice", id)
				return
			}
			seen[id] = true
			pos += st.Consumed
		}
		return
	}
	// no codec: call-id table
	p, v := r.parseStream(stream)
	if v != nil {
		// which message was being matched when the mismatch occurred?
		id := 0
		if len(p.order) >= 0 {
			pos := 0
			for _, pid := range p.order {
				pos += len(r.byID[pid].Payload)
			}
			if pos < len(stream) {
				id = int(stream[pos]) - c09IDBase
			}
		}
		out.Violation = blame(id, "%s", v.Msg)
		return
	}
	return
}

func TestC09(t *testing.T) {
	core.Main(t, core.Prop[E1Case]{
		ID:      "C09",
		Gen:     genC09,
		Run:     runC09,
		Summary: summarizeE1,
	})
}
