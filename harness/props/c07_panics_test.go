package props

import (
	"encoding/json"
	"errors"
	"fmt"
	"net/http"
	"os"
	"strings"
	"sync"
	"testing"
	"time"

	netty "github.com/go-netty/go-netty"
	"github.com/go-netty/go-netty/codec/xhttp"
	"pgregory.net/rapid"

	"verif/harness/core"
	"verif/harness/mock"
)

// C07 — handler panics and transport failures are contained and routed as exceptions.

var c07Values = []string{"error", "string", "runtime", "timeout", "neterr", "wrapped-neterr", "stringer-error"}
var c07Entries = []string{"chwrite", "chtrigger", "readloop", "ctxwrite", "ctxtrigger"}

func genC07(t *rapid.T) E3Case {
	var c E3Case
	np := rapid.IntRange(1, 5).Draw(t, "pool")
	acts := []string{"ctxwrite", "ctxtrigger", "chwrite", "chtrigger"}
	for i := 0; i < np; i++ {
		c.Handlers = append(c.Handlers, genHSpec(t, acts, true))
	}
	// one or two panic sites
	for k := rapid.IntRange(1, 2).Draw(t, "npanic"); k > 0; k-- {
		hi := rapid.IntRange(0, np-1).Draw(t, "ph")
		on := rapid.SampledFrom([]int{kActive, kRead, kRead, kWrite, kWrite, kEvent, kEvent}).Draw(t, "pon")
		c.Handlers[hi].Ifaces |= 1 << uint(on)
		c.Handlers[hi].Acts = append(c.Handlers[hi].Acts, HAct{On: on, Do: "panic", Arg: rapid.SampledFrom(c07Values).Draw(t, "pval")})
	}
	// exception handler shape
	switch rapid.IntRange(0, 3).Draw(t, "eshape") {
	case 1:
		c.Handlers = append(c.Handlers, HSpec{Ifaces: 1 << kException}) // forwarding
	case 2:
		c.Handlers = append(c.Handlers, HSpec{Ifaces: 1 << kException, Stop: 1 << kException}) // swallowing
	case 3:
		c.Handlers = append(c.Handlers, HSpec{Ifaces: 1 << kException}, HSpec{Ifaces: 1 << kException, Stop: 1 << kException})
	}
	for i := range c.Handlers {
		// exception and inactive handlers never panic (the property's proviso)
		var keep []HAct
		for _, a := range c.Handlers[i].Acts {
			if a.Do == "panic" && (a.On == kException || a.On == kInactive) {
				continue
			}
			keep = append(keep, a)
		}
		c.Handlers[i].Acts = keep
	}
	c.Build = genBuild(t, len(c.Handlers), false)
	// make sure every handler is in the pipeline at least once
	var all []int
	for i := range c.Handlers {
		all = append(all, i)
	}
	if rapid.Bool().Draw(t, "addall") {
		c.Build = append(c.Build, BuildOp{Op: "last", H: all})
	}
	c.Queue = rapid.SampledFrom([]int{0, 0, 4}).Draw(t, "queue")
	for i := rapid.IntRange(1, 6).Draw(t, "nev"); i > 0; i-- {
		ev := E3Event{Entry: rapid.SampledFrom(c07Entries).Draw(t, "entry")}
		if ev.Entry == "ctxwrite" || ev.Entry == "ctxtrigger" {
			ev.At = rapid.IntRange(0, 14).Draw(t, "at")
		}
		if ev.Entry == "chwrite" || ev.Entry == "ctxwrite" {
			ev.Reader = rapid.SampledFrom([]string{"", "", "", "eof", "eofdata"}).Draw(t, "reader")
		}
		c.Events = append(c.Events, ev)
	}
	switch rapid.IntRange(0, 5).Draw(t, "tail") {
	case 0:
		c.Events = append(c.Events, E3Event{Entry: "readfail", Kind: rapid.IntRange(0, 2).Draw(t, "rfk")})
	case 1:
		c.Events = append(c.Events, E3Event{Entry: "close"}, E3Event{Entry: rapid.SampledFrom(c07Entries[:2]).Draw(t, "afterclose")})
	}
	if rapid.IntRange(0, 3).Draw(t, "fault") == 0 {
		op := "wr" // the K-th transport write, whether the channel uses Write or Writev for it
		if rapid.Bool().Draw(t, "flushfault") {
			op = "flush"
		}
		c.Faults = []mock.Fault{{Op: op, K: rapid.IntRange(1, 3).Draw(t, "fk"), Err: rapid.SampledFrom([]string{"plain", "timeout", "neterr"}).Draw(t, "ferr"),
			Partial: op != "flush" && rapid.Bool().Draw(t, "partial")}}
	}
	return c
}

// runC07HTTP: a panic inside the application's http.Handler, i.e. inside the shipped handler adapter's read delivery.
// It is an exception like any other: delivered once to the exception handlers (the value itself when it is an error),
// and since nobody consumes it the channel is closed with it.
func runC07HTTP(c E3Case, cls *core.ClassSet) (out core.Outcome) {
	var val interface{}
	switch c.HTTPPanic {
	case "abort":
		val = http.ErrAbortHandler
	case "string":
		val = "verif: http handler panic string"
	default:
		val = makePanicValue(c.HTTPPanic, 7)
	}
	handler := http.HandlerFunc(func(w http.ResponseWriter, r *http.Request) { panic(val) })
	// the adapter handles exceptions itself (it closes the channel with them): the recorder sits in front of it
	var mu sync.Mutex
	var seen []error
	recorder := netty.ExceptionHandlerFunc(func(ctx netty.ExceptionContext, ex netty.Exception) {
		mu.Lock()
		seen = append(seen, ex)
		mu.Unlock()
		ctx.HandleException(ex)
	})
	rig := newChanRig(c.Queue, xhttp.ServerCodec(), recorder, xhttp.Handler(handler))
	defer rig.shutdown()
	rig.tr.Feed([]byte("GET /x HTTP/1.1\r\nHost: h\r\n\r\n"))
	if !rig.quiesce(10 * time.Second) {
		out.Inconclusive = "http panic: read loop neither parked nor closed within 10 s"
		return
	}
	cls.Add("http-handler-panic:%s", c.HTTPPanic)
	cls.Add("site:read")
	out.NonTrivial = true
	mu.Lock()
	exs := append([]error{}, seen...)
	mu.Unlock()
	matches := 0
	for _, ex := range exs {
		if e, ok := val.(error); ok {
			if ex == e || errors.Is(ex, e) {
				matches++
			}
		} else if ex != nil && strings.Contains(ex.Error(), fmt.Sprint(val)) {
			matches++
		}
	}
	if matches != 1 {
		out.Violation = core.Viol("C07/http-handler-panic-not-routed", "the http.Handler panicked with %T %v inside the shipped handler adapter; the exception handlers received %v (want that value exactly once)", val, val, exs)
		return
	}
	if !rig.tr.IsClosed() {
		out.Violation = core.Viol("C07/not-closed-after-unconsumed-exception", "the exception %v was not consumed by any handler but the channel is still open", val)
	}
	return
}

// enumC07 enumerates the fault space for pipelines of at most three handlers.
func enumC07(emit func(E3Case)) {
	for _, k := range []string{"error", "string", "stringer-error", "abort", "neterr"} {
		for _, q := range []int{0, 4} {
			emit(E3Case{HTTPPanic: k, Queue: q})
		}
	}
	type eshape struct {
		present, swallow, before bool
	}
	eshapes := []eshape{{}, {true, false, false}, {true, true, false}, {true, false, true}, {true, true, true}}
	entries := []struct {
		entry string
		on    int
	}{{"chwrite", kWrite}, {"ctxwrite", kWrite}, {"chtrigger", kEvent}, {"ctxtrigger", kEvent}, {"readloop", kRead}, {"serve", kActive}}
	for _, en := range entries {
		for _, val := range c07Values {
			for _, es := range eshapes {
				for _, passive := range []bool{false, true} {
					for _, queue := range []int{0, 4} {
						p := HSpec{Ifaces: 1 << uint(en.on), Acts: []HAct{{On: en.on, Do: "panic", Arg: val}}}
						c := E3Case{Handlers: []HSpec{p}, Queue: queue}
						order := []int{0}
						if passive {
							c.Handlers = append(c.Handlers, HSpec{Ifaces: 63})
							if en.on == kWrite {
								order = []int{0, 1} // outbound runs tail to head: the passive handler forwards to the panicking one
							} else {
								order = []int{1, 0}
							}
						}
						if es.present {
							h := HSpec{Ifaces: 1 << kException}
							if es.swallow {
								h.Stop = 1 << kException
							}
							c.Handlers = append(c.Handlers, h)
							ei := len(c.Handlers) - 1
							if es.before {
								order = append([]int{ei}, order...)
							} else {
								order = append(order, ei)
							}
						}
						c.Build = []BuildOp{{Op: "last", H: order}}
						if en.entry != "serve" {
							c.Events = []E3Event{{Entry: en.entry, At: len(order) + 1}}
						}
						// a second, harmless event: the channel must stay usable
						c.Events = append(c.Events, E3Event{Entry: "chtrigger"}, E3Event{Entry: "readloop"})
						emit(c)
					}
				}
			}
		}
	}
}

func readFailKind(k int) string { return []string{"plain", "timeout", "neterr"}[k%3] }

func modelKindOfErr(kind string) string {
	switch kind {
	case "timeout":
		return "timeout"
	case "neterr":
		return "neterr"
	}
	return "error"
}

func runC07(c E3Case) (out core.Outcome) {
	cls := core.NewClassSet()
	defer func() { out.Classes = cls.List() }()
	if dir, shard := os.Getenv("VERIF_WITNESS_DIR"), os.Getenv("VERIF_SHARD"); dir != "" && shard != "" {
		// side file: if the process dies while this case runs, the driver reports it with this case
		if data, err := json.Marshal(map[string]interface{}{"case": c}); err == nil {
			_ = os.WriteFile(fmt.Sprintf("%s/current-%s.json", dir, shard), data, 0o644)
		}
	}
	if c.HTTPPanic != "" {
		return runC07HTTP(c, cls)
	}
	r := newE3Rig(c)
	m := newE3Model()
	r.installWireProbes()
	for _, op := range c.Build {
		for _, hi := range op.H {
			if hi < 0 || hi >= len(c.Handlers) {
				return core.Outcome{Inconclusive: "bad case: handler index"}
			}
		}
		if m.build(op, c.Handlers) != r.realBuild(op) {
			return core.Outcome{Inconclusive: "bad case: build admission differs (C03's subject)"}
		}
	}
	r.pl.AddFirst(&e3Decoder{rig: r})
	m.insertAfter(0, []e3MH{{inst: -1, spec: HSpec{Ifaces: 1 << kRead}}})
	faults := &c07Faults{m: m, faults: c.Faults, queued: c.Queue > 0}
	m.headWrite = faults.headWrite

	r.pl.ServeChannel(r.ch)
	defer r.shutdown()
	if !r.settle() {
		out.Inconclusive = "read loop did not park after activation"
		return
	}
	fired := func() bool { return m.nextPanic > 0 }
	m.invokeMethod(func() { m.inbound(kActive, 0, "") })
	check := func(what string, from int) bool {
		if m.unknown {
			return true
		}
		if v := compareTraces(r, m, r.snapshot(), from, what, "C07"); v != nil {
			out.Violation = v
			return false
		}
		// identity of exception values that are errors
		for _, e := range r.snapshot() {
			if e.H >= 0 && (e.Kind == kException || e.Kind == kInactive) && e.err != nil {
				if want, ok := r.errs[e.Msg]; ok && want != e.err && !errors.Is(e.err, want) {
					out.Violation = core.Viol("C07/exception-identity", "%s: handler %d received an exception with the text of the panic value but another object", what, e.H)
					return false
				}
			}
		}
		return true
	}
	if !check("activation", 0) {
		return
	}
	for ei, ev := range c.Events {
		from := imin(len(m.trace), len(r.snapshot()))
		wasClosed := m.closed
		tag := fmt.Sprintf("%d", ei)
		what := fmt.Sprintf("event %d (%s)", ei, ev.Entry)
		var escaped interface{}
		var stuck bool
		panicsBefore := m.nextPanic
		if ev.Reader != "" {
			cls.Add("write-message:reader-%s", ev.Reader)
		}
		switch ev.Entry {
		case "chwrite":
			escaped, stuck = r.call(func() { _ = r.ch.Write(e3WriteMsg("w:"+tag, ev.Reader)) })
			m.chWrite("w:" + tag)
		case "chtrigger":
			escaped, stuck = r.call(func() { r.ch.Trigger("e:" + tag) })
			m.chTrigger("e:" + tag)
		case "readloop":
			if m.closed {
				continue
			}
			r.tr.Feed([]byte{byte(ei)})
			if !r.settle() {
				out.Inconclusive = "read loop did not park after a delivery"
				return
			}
			m.invokeMethod(func() { m.inbound(kRead, 0, fmt.Sprintf("r:%d", ei)) })
		case "ctxwrite", "ctxtrigger":
			pos := ev.At % m.size()
			ctx := r.pl.ContextAt(pos)
			what = fmt.Sprintf("event %d (%s at position %d)", ei, ev.Entry, pos)
			if ev.Entry == "ctxwrite" {
				escaped, stuck = r.call(func() { ctx.Write(e3WriteMsg("w:"+tag, ev.Reader)) })
				m.ctxWrite(pos, "w:"+tag)
			} else {
				escaped, stuck = r.call(func() { ctx.Trigger("e:" + tag) })
				m.ctxTrigger(pos, "e:"+tag)
			}
		case "readfail":
			if m.closed {
				continue
			}
			kind := readFailKind(ev.Kind)
			ferr := mock.MakeErr(kind)
			r.errs["x:"+ferr.Error()] = ferr
			cls.Add("read-failure:%s", kind)
			// the decoder raises the read error; the read keeps failing until the channel is closed
			for i := 0; i < 4 && !m.closed && !m.unknown; i++ {
				m.invokeMethod(func() { panic(modelPanic{kind: modelKindOfErr(kind), text: ferr.Error()}) })
			}
			r.tr.FailRead(ferr)
			if m.unknown {
				r.ch.Close(nil) // whatever the earlier unconstrained situation left behind: do not let a read loop spin
			} else if !m.closed {
				// a handler swallows the exception for ever: the read loop keeps polling a dead transport.
				// The statement only covers failures that no handler swallows: stop the spin.
				m.unknown = true
				cls.Add("read-failure-swallowed")
				r.ch.Close(nil)
			}
			if !r.quiesceClosedOrParked() {
				out.Inconclusive = "read loop neither parked nor ended after a read failure"
				return
			}
		case "close":
			r.ch.Close(nil)
			m.close("x:<nil>")
		}
		if stuck {
			out.Violation = core.Viol("C07/call-never-returned:"+ev.Entry, "%s: the call did not return within 15 s (the channel is wedged)", what)
			return
		}
		if !r.settle() {
			out.Violation = core.Viol("C07/channel-wedged:"+ev.Entry, "%s: afterwards the read loop neither parked nor ended within 10 s", what)
			return
		}
		if escaped != nil {
			out.Violation = core.Viol("C07/panic-escaped:"+ev.Entry, "%s: a panic escaped into the caller: %v", what, escaped)
			return
		}
		if m.nextPanic > panicsBefore && !wasClosed {
			cls.Add("fault-fired:%s", ev.Entry)
		}
		if wasClosed || m.closed && wasClosed {
			cls.Add("state:closed")
			// on a closed channel only containment is asserted
			m.unknown = true
		}
		if !check(what, from) {
			return
		}
		if !m.closed && !m.unknown && r.tr.IsClosed() {
			out.Violation = core.Viol("C07/closed-unexpectedly", "%s: the channel was closed although the exception was consumed / no failure occurred", what)
			return
		}
		if m.closed && !m.unknown && !r.tr.IsClosed() {
			out.Violation = core.Viol("C07/not-closed", "%s: the exception was not consumed (or the transport failed) but the channel is still open", what)
			return
		}
	}
	out.NonTrivial = fired()
	for _, h := range c.Handlers {
		for _, a := range h.Acts {
			if a.Do == "panic" {
				cls.Add("value:%s", a.Arg)
				cls.Add("site:%s", kindNames[a.On])
			}
		}
	}
	if c.Queue > 0 {
		cls.Add("channel:queued")
	} else {
		cls.Add("channel:sync")
	}
	if faults.fired {
		cls.Add("transport-fault-fired")
		out.NonTrivial = true
	}
	if m.unknown {
		cls.Add("model-unconstrained-tail")
	}
	return
}

// quiesceClosedOrParked waits until the read loop is parked or the channel was closed.
func (r *e3Rig) quiesceClosedOrParked() bool { return r.settle() }

// c07Faults models the transport fault plan at the head of the pipeline.
type c07Faults struct {
	m      *e3Model
	faults []mock.Fault
	queued bool
	nWrite int
	nFlush int
	fired  bool
}

func (f *c07Faults) find(op string, k int) *mock.Fault {
	for i := range f.faults {
		if (f.faults[i].Op == op || (f.faults[i].Op == "wr" && (op == "write" || op == "writev"))) && f.faults[i].K == k {
			return &f.faults[i]
		}
	}
	return nil
}

func (f *c07Faults) headWrite(msg string) {
	m := f.m
	f.nWrite++
	wop := "write"
	if f.queued {
		wop = "writev"
	}
	if ft := f.find(wop, f.nWrite); ft != nil {
		f.fired = true
		text := mock.MakeErr(ft.Err).Error()
		if f.queued {
			// the sender dies: it closes the channel with the failure, the writer is not told
			m.close("x:" + text)
			return
		}
		panic(modelPanic{kind: modelKindOfErr(ft.Err), text: text})
	}
	m.trace = append(m.trace, e3Ev{H: -2, Msg: msg})
	f.nFlush++
	if ft := f.find("flush", f.nFlush); ft != nil {
		f.fired = true
		text := mock.MakeErr(ft.Err).Error()
		if f.queued {
			m.close("x:" + text)
			return
		}
		panic(modelPanic{kind: modelKindOfErr(ft.Err), text: text})
	}
}

func TestC07(t *testing.T) {
	core.Main(t, core.Prop[E3Case]{
		ID:   "C07",
		Gen:  genC07,
		Run:  runC07,
		Enum: enumC07,
	})
}
