package props

import (
	"bufio"
	"bytes"
	"context"
	"errors"
	"fmt"
	"io"
	"net"
	"net/http"
	"strings"
	"testing"
	"time"

	"github.com/go-netty/go-netty/utils"
	"pgregory.net/rapid"

	"verif/harness/core"
	"verif/harness/mock"
)

// C14 — accepted outbound types are sent byte-exact; conversions preserve content.

type C14Case struct {
	Mode    string `json:"mode"`    // head | tobytes | toreader | countof | bytereader | stealbytes
	Queue   int    `json:"queue"`   // head: 0 = synchronous channel, >0 = queued channel with this queue size
	Carrier string `json:"carrier"` // see c14Carrier
	Size    int    `json:"size"`
	Seed    int    `json:"seed"`
	Step    int    `json:"step"` // short-read size / segment size / scratch size
	ErrAt   int    `json:"errat"`
	Defer   bool   `json:"defer"` // head, queued: the executor runs the sender only after Channel.Write returned
	// Prelude (head mode): what happened on the channel before the message is written.
	// "ctxwrite1-expired" / "ctxwritev-expired": a low-level write with a context whose deadline has passed (it fails and sends nothing)
	Prelude string `json:"prelude,omitempty"`
}

var c14Sizes = []int{0, 1, 2, 100, 1023, 1024, 1025, 2047, 2048, 2049, 4095, 4096, 4097, 65535, 65536, 65537, 200000}

var c14Supported = []string{"bytes", "bb", "bb1", "bbalias", "breader-used", "sreader-used", "emptyreads", "buffer", "breader", "sreader", "netbuffers", "wt1", "wtN", "wtReuse", "bufio", "reader", "short", "eofdata", "errafter",
	"limited", "limitedcut", "multi", "section", "exact"}
var c14Unsupported = []string{"string", "int", "struct", "nil", "intslice", "httpreq"}

var errC14 = errors.New("verif: reader failed")

// c14ArenaCheck, when set by the carrier, verifies that the callee left the caller's memory alone.
var c14ArenaCheck func() *core.Violation

type wtOne struct{ data []byte }

func (w *wtOne) WriteTo(dst io.Writer) (int64, error) {
	n, err := dst.Write(w.data)
	return int64(n), err
}

type wtMany struct {
	data []byte
	step int
}

func (w *wtMany) WriteTo(dst io.Writer) (int64, error) {
	var total int64
	for off := 0; off < len(w.data); off += w.step {
		end := imin(off+w.step, len(w.data))
		n, err := dst.Write(w.data[off:end])
		total += int64(n)
		if err != nil {
			return total, err
		}
	}
	return total, nil
}

// wtReuse writes from one scratch buffer that it refills between writes, as
// bufio.Reader.WriteTo or io.Copy do (allowed: io.Writer must not retain p).
type wtReuse struct {
	data []byte
	step int
}

func (w *wtReuse) WriteTo(dst io.Writer) (int64, error) {
	scratch := make([]byte, w.step)
	var total int64
	for off := 0; off < len(w.data); off += w.step {
		n := copy(scratch, w.data[off:])
		m, err := dst.Write(scratch[:n])
		total += int64(m)
		if err != nil {
			return total, err
		}
	}
	return total, nil
}

type eofDataReader struct {
	data []byte
	step int
}

func (r *eofDataReader) Read(p []byte) (int, error) {
	if len(r.data) == 0 {
		return 0, io.EOF
	}
	n := imin(imin(r.step, len(p)), len(r.data))
	copy(p, r.data[:n])
	r.data = r.data[n:]
	if len(r.data) == 0 {
		return n, io.EOF
	}
	return n, nil
}

type errAfterReader struct {
	data []byte
	left int
	step int
}

func (r *errAfterReader) Read(p []byte) (int, error) {
	if r.left <= 0 {
		return 0, errC14
	}
	n := imin(imin(r.step, len(p)), imin(r.left, len(r.data)))
	copy(p, r.data[:n])
	r.data = r.data[n:]
	r.left -= n
	return n, nil
}

// c14Carrier builds the message. want is the content that must be transmitted
// (for errafter: the prefix before the failure).
func c14Carrier(c C14Case) (msg interface{}, want []byte) {
	content, _ := payloadBytes(wireNone, c.Size, c.Seed)
	step := imax(1, c.Step)
	switch c.Carrier {
	case "bytes":
		return append([]byte{}, content...), content
	case "bb":
		var segs [][]byte
		for off := 0; off < len(content); off += step {
			segs = append(segs, append([]byte{}, content[off:imin(off+step, len(content))]...))
			if len(segs)%3 == 1 {
				segs = append(segs, []byte{})
			}
		}
		return segs, content
	case "bb1": // a vector with exactly one element
		return [][]byte{append([]byte{}, content...)}, content
	case "bbalias":
		// the elements are pieces of one buffer of the caller, handed over in another order than they lie in memory:
		// memory [p0][p2][p1][guard], vector {p0, p1, p2}; p0's spare capacity covers p2 and p1
		a, b := imin(c.ErrAt, len(content)), len(content)
		if a < b {
			b = a + (len(content)-a)/2
		}
		p0, p1, p2 := content[:a], content[a:b], content[b:]
		arena := make([]byte, 0, len(content)+8)
		arena = append(append(append(append(arena, p0...), p2...), p1...), bytes.Repeat([]byte{0xEE}, 8)...)
		pristine := append([]byte{}, arena...)
		c14ArenaCheck = func() *core.Violation {
			if !bytes.Equal(arena, pristine) {
				d := firstDiff(arena, pristine)
				return core.Viol("C14/callers-memory-modified:bbalias", "after the call the caller's buffer differs at offset %d (element lengths %d/%d/%d laid out p0,p2,p1): % x, was % x", d, len(p0), len(p1), len(p2), arena[d:imin(len(arena), d+8)], pristine[d:imin(len(pristine), d+8)])
			}
			return nil
		}
		return [][]byte{arena[:len(p0)], arena[len(p0)+len(p2) : len(p0)+len(p2)+len(p1)], arena[len(p0) : len(p0)+len(p2)]}, content
	case "buffer":
		return bytes.NewBuffer(append([]byte{}, content...)), content
	case "breader":
		return bytes.NewReader(content), content
	case "sreader":
		return strings.NewReader(string(content)), content
	case "breader-used", "sreader-used":
		// a reader the application has already read something from: the message is what is left unread
		tag := []byte("tag:")[:1+c.Seed%4]
		all := append(append([]byte{}, tag...), content...)
		if c.Carrier == "breader-used" {
			r := bytes.NewReader(all)
			_, _ = io.ReadFull(r, make([]byte, len(tag)))
			return r, content
		}
		r := strings.NewReader(string(all))
		_, _ = io.ReadFull(r, make([]byte, len(tag)))
		return r, content
	case "emptyreads":
		// a plain reader that answers (0, nil) before every fragment (allowed by io.Reader, never twice in a row)
		return &shortReader{data: append([]byte{}, content...), step: step, empty: true}, content
	case "netbuffers":
		var segs net.Buffers
		for off := 0; off < len(content); off += step {
			segs = append(segs, append([]byte{}, content[off:imin(off+step, len(content))]...))
		}
		return &segs, content
	case "wt1":
		return &wtOne{data: content}, content
	case "wtN":
		return &wtMany{data: content, step: step}, content
	case "wtReuse":
		return &wtReuse{data: content, step: step}, content
	case "bufio":
		return bufio.NewReaderSize(plainReader{bytes.NewReader(content)}, imax(16, step)), content
	case "reader":
		return plainReader{bytes.NewReader(content)}, content
	case "short":
		return &shortReader{data: append([]byte{}, content...), step: step}, content
	case "eofdata":
		return &eofDataReader{data: append([]byte{}, content...), step: step}, content
	case "limited": // io.LimitedReader over a fragmenting source, limit = size
		return io.LimitReader(&shortReader{data: append([]byte{}, content...), step: step}, int64(len(content))), content
	case "limitedcut": // limit below the available data
		k := imin(c.ErrAt, len(content))
		return io.LimitReader(&shortReader{data: append([]byte{}, content...), step: step}, int64(k)), content[:k]
	case "multi": // io.MultiReader, as the delimiter and length-field codecs build
		k := imin(c.ErrAt, len(content))
		return io.MultiReader(bytes.NewReader(content[:k]), &shortReader{data: append([]byte{}, content[k:]...), step: step}), content
	case "section":
		k := imin(c.ErrAt, len(content))
		pad := append(append([]byte("pad"), content...), "tail"...)
		_ = k
		return io.NewSectionReader(bytes.NewReader(pad), 3, int64(len(content))), content
	case "exact": // the reader the frame decoders deliver
		return utils.ExactReader(&shortReader{data: append([]byte{}, content...), step: step}, int64(len(content))), content
	case "errafter":
		k := imin(c.ErrAt, len(content))
		return &errAfterReader{data: append([]byte{}, content...), left: k, step: step}, content[:k]
	case "string":
		return string(content), nil
	case "int":
		return c.Size, nil
	case "struct":
		return struct{ A int }{c.Size}, nil
	case "nil":
		return nil, nil
	case "intslice":
		return []int{1, 2, c.Size}, nil
	case "httpreq":
		r, _ := http.NewRequest("GET", "http://x/", nil)
		return r, nil
	}
	return nil, nil
}

func isUnsupported(carrier string) bool {
	for _, u := range c14Unsupported {
		if u == carrier {
			return true
		}
	}
	return false
}

func genC14(t *rapid.T) C14Case {
	c := C14Case{Mode: rapid.SampledFrom([]string{"head", "head", "head", "tobytes", "toreader", "countof", "bytereader", "stealbytes"}).Draw(t, "mode")}
	if rapid.IntRange(0, 2).Draw(t, "szk") == 0 {
		c.Size = rapid.IntRange(0, 3000).Draw(t, "size")
	} else {
		c.Size = rapid.SampledFrom(c14Sizes).Draw(t, "size")
	}
	c.Seed = rapid.IntRange(0, 999).Draw(t, "seed")
	c.Step = rapid.SampledFrom([]int{1, 2, 3, 7, 16, 100, 1023, 1024, 1025, 4096, 5000}).Draw(t, "step")
	if c.Size > 5000 && c.Step < 7 {
		c.Step = 100 // keep huge payloads out of byte-sized steps
	}
	c.ErrAt = rapid.IntRange(0, c.Size).Draw(t, "errat")
	all := append(append([]string{}, c14Supported...), c14Unsupported...)
	switch c.Mode {
	case "head":
		c.Carrier = rapid.SampledFrom(all).Draw(t, "carrier")
		c.Queue = rapid.SampledFrom([]int{0, 0, 1, 2, 8, 64}).Draw(t, "queue")
		if rapid.IntRange(0, 3).Draw(t, "prelude") == 0 {
			c.Prelude = rapid.SampledFrom([]string{"ctxwrite1-expired", "ctxwritev-expired"}).Draw(t, "preludekind")
		}
		if rapid.Bool().Draw(t, "defer") {
			// a stalled executor: the queue must hold every chunk of the message
			c.Defer = true
			c.Queue = c.Size/imin(1024, c.Step) + 4
			if c.Queue > 300 {
				c.Defer, c.Queue = false, 64
			}
		}
	case "tobytes", "toreader":
		c.Carrier = rapid.SampledFrom(all).Draw(t, "carrier")
	case "countof":
		c.Carrier = rapid.SampledFrom([]string{"bb", "bbalias"}).Draw(t, "carrier")
	case "bytereader":
		c.Carrier = rapid.SampledFrom([]string{"breader", "sreader", "buffer", "reader", "short", "eofdata", "bufio", "errafter", "limited", "limitedcut", "multi", "section", "exact", "breader-used", "sreader-used", "emptyreads"}).Draw(t, "carrier")
		if c.Size > 5000 {
			c.Size = rapid.IntRange(0, 5000).Draw(t, "brsize")
			c.ErrAt = imin(c.ErrAt, c.Size)
		}
	default:
		c.Carrier = rapid.SampledFrom([]string{"breader", "sreader", "buffer", "netbuffers", "wt1", "wtN", "wtReuse", "bufio", "breader-used", "sreader-used"}).Draw(t, "carrier")
	}
	return c
}

func runC14(c C14Case) (out core.Outcome) {
	cls := core.NewClassSet()
	defer func() { out.Classes = cls.List() }()
	cls.Add("mode:%s", c.Mode)
	cls.Add("carrier:%s", c.Carrier)
	big := c.Size > 1024
	if big {
		cls.Add("%s:>1024", c.Carrier)
	} else {
		cls.Add("%s:<=1024", c.Carrier)
	}
	c14ArenaCheck = nil
	msg, want := c14Carrier(c)
	arenaCheck := func() bool {
		if c14ArenaCheck != nil && out.Violation == nil {
			out.Violation = c14ArenaCheck()
		}
		return out.Violation != nil
	}
	defer arenaCheck()
	unsupported := isUnsupported(c.Carrier)
	out.NonTrivial = big || unsupported || c.Carrier == "short" || c.Carrier == "eofdata" || c.Carrier == "errafter" || c.Carrier == "wtReuse" || c.Carrier == "bufio"

	switch c.Mode {
	case "head":
		rig := newChanRigDeferred(c.Queue, c.Defer && c.Queue > 0)
		rig.keepOpen = true
		defer rig.shutdown()
		if c.Queue > 0 {
			cls.Add("channel:queued")
		} else {
			cls.Add("channel:sync")
		}
		preludeBytes := 0
		if c.Prelude != "" {
			// an earlier low-level write that was given up because its context had expired must leave nothing behind:
			// neither bytes nor an armed write deadline
			cls.Add("prelude:%s", c.Prelude)
			ctx, cancel := context.WithDeadline(context.Background(), time.Now().Add(-time.Second))
			if cw, ok := rig.ch.(ctxWriter); ok {
				if c.Prelude == "ctxwrite1-expired" {
					_, _ = cw.CtxWrite1(ctx, []byte("prelude"))
				} else {
					_, _ = cw.CtxWritev(ctx, [][]byte{[]byte("pre"), []byte("lude")})
				}
			}
			cancel()
			rig.ex.RunDeferred()
			if acc, _ := rig.tr.Accepted(); len(acc) > 0 {
				// accepted although the context had expired (allowed on queued channels): not part of this message
				preludeBytes = len(acc)
			}
		}
		err := rig.ch.Write(msg)
		if arenaCheck() {
			return
		}
		c14ArenaCheck = nil // from here on the harness itself reuses the buffers
		if rig.ex.Deferred() > 0 {
			cls.Add("sender-deferred")
			out.NonTrivial = true
			// Write has returned: the caller may reuse its buffers at once; what is sent is what the message held
			switch m := msg.(type) {
			case []byte:
				for i := range m {
					m[i] = 0xDD
				}
				cls.Add("caller-buffer-reused")
			case [][]byte:
				for _, seg := range m {
					for i := range seg {
						seg[i] = 0xDD
					}
				}
				cls.Add("caller-buffer-reused")
			}
		}
		rig.ex.RunDeferred()
		if err != nil {
			out.Violation = core.Viol("C14/write-returned-error", "Channel.Write on an open channel returned %v", err)
			return
		}
		acc, flushed := rig.tr.Accepted()
		acc, flushed = acc[preludeBytes:], flushed-preludeBytes
		exs := rig.exceptions()
		switch {
		case unsupported:
			if len(acc) != 0 || len(exs) != 1 {
				out.Violation = core.Viol("C14/unsupported-type:"+c.Carrier, "message of type %T: %d bytes transmitted, %d exceptions (want 0 bytes, 1 exception)", msg, len(acc), len(exs))
			}
		case c.Carrier == "errafter":
			// the statement is silent on how much of a failing source is transmitted (a streaming head sends what it
			// got, a collecting one nothing): any prefix of what the reader delivered, and the failure as an exception
			if !bytes.HasPrefix(want, acc) || len(exs) != 1 || !errors.Is(exs[0], errC14) {
				out.Violation = core.Viol("C14/failing-reader", "reader failing after %d bytes: %d bytes transmitted (a prefix of what it delivered: %v), exceptions %v", len(want), len(acc), bytes.HasPrefix(want, acc), exs)
			}
		default:
			if len(exs) != 0 {
				out.Violation = core.Viol("C14/supported-type-raised:"+c.Carrier, "message of type %T (%d bytes) raised %v", msg, len(want), exs[0])
				return
			}
			if !bytes.Equal(acc, want) {
				out.Violation = core.Viol("C14/bytes-differ:"+c.Carrier, "message of type %T: %d bytes transmitted, want %d (first difference at %d)", msg, len(acc), len(want), firstDiff(acc, want))
				return
			}
			if flushed != len(acc) {
				out.Violation = core.Viol("C14/not-flushed:"+c.Carrier, "%d of %d transmitted bytes flushed", flushed, len(acc))
			}
		}
		return
	case "tobytes":
		var got []byte
		var err error
		if pv := mock.Catch(func() { got, err = utils.ToBytes(msg) }); pv != nil {
			out.Violation = core.Viol("C14/helper-panicked:tobytes", "ToBytes(%T) panicked: %v", msg, pv)
			return
		}
		switch {
		case unsupported && c.Carrier == "string":
			if err != nil || string(got) != string(mustContent(c)) {
				out.Violation = core.Viol("C14/tobytes-differs:string", "ToBytes(string) = %d bytes, err %v", len(got), err)
			}
		case unsupported:
			if err == nil {
				out.Violation = core.Viol("C14/tobytes-accepts-unsupported:"+c.Carrier, "ToBytes(%T) returned no error", msg)
			}
		case c.Carrier == "errafter":
			if err == nil {
				out.Violation = core.Viol("C14/tobytes-hides-read-error", "ToBytes of a failing reader returned %d bytes and no error", len(got))
			}
		default:
			if err != nil || !bytes.Equal(got, want) {
				out.Violation = core.Viol("C14/tobytes-differs:"+c.Carrier, "ToBytes(%T) = %d bytes, err %v; want %d bytes (first difference at %d)", msg, len(got), err, len(want), firstDiff(got, want))
				return
			}
			// the result belongs to the caller: a codec keeps it (header + body) while it converts the next message
			other := bytes.Repeat([]byte{0x5A}, imax(1, len(want)))
			_, _ = utils.ToBytes(bytes.NewReader(other))
			_, _ = utils.ToBytes(strings.NewReader(string(other)))
			if !bytes.Equal(got, want) {
				out.Violation = core.Viol("C14/helper-result-changed-later:tobytes:"+c.Carrier, "the %d bytes ToBytes(%T) returned were overwritten by a later conversion of another message (first difference at %d)", len(got), msg, firstDiff(got, want))
			}
		}
		return
	case "toreader":
		var r io.Reader
		var err error
		if pv := mock.Catch(func() { r, err = utils.ToReader(msg) }); pv != nil {
			out.Violation = core.Viol("C14/helper-panicked:toreader", "ToReader(%T) panicked: %v", msg, pv)
			return
		}
		switch {
		case c.Carrier == "string":
			want = mustContent(c)
			fallthrough
		case !unsupported && isReaderCarrier(c.Carrier), c.Carrier == "bytes", c.Carrier == "bb", c.Carrier == "bb1", c.Carrier == "bbalias":
			if err != nil {
				out.Violation = core.Viol("C14/toreader-rejects:"+c.Carrier, "ToReader(%T) returned %v", msg, err)
				return
			}
			got, rerr := io.ReadAll(r)
			if c.Carrier == "errafter" {
				if rerr == nil || !bytes.Equal(got, want) {
					out.Violation = core.Viol("C14/toreader-differs:errafter", "reading ToReader(failing reader): %d bytes err %v", len(got), rerr)
				}
				return
			}
			if rerr != nil || !bytes.Equal(got, want) {
				out.Violation = core.Viol("C14/toreader-differs:"+c.Carrier, "reading ToReader(%T) gave %d bytes err %v, want %d", msg, len(got), rerr, len(want))
			}
		default:
			// not a reader, not bytes: netbuffers/wt* are WriterTo only; unsupported types
			if err == nil {
				out.Violation = core.Viol("C14/toreader-accepts-unsupported:"+c.Carrier, "ToReader(%T) returned no error", msg)
			}
		}
		return
	case "countof":
		segs := msg.([][]byte)
		if got := utils.CountOf(segs); got != int64(len(want)) {
			out.Violation = core.Viol("C14/countof", "CountOf(%d segments) = %d, want %d", len(segs), got, len(want))
		}
		return
	case "bytereader":
		br := utils.NewByteReader(msg.(io.Reader))
		var got []byte
		var termErr error
		for i := 0; i <= len(want)+8; i++ {
			b, err := br.ReadByte()
			if err != nil {
				termErr = err
				break
			}
			got = append(got, b)
		}
		if !bytes.Equal(got, want) {
			sig := "C14/bytereader-differs:" + c.Carrier
			out.Violation = core.Viol(sig, "ReadByte loop over %T delivered %d bytes, want %d (terminal error %v)", msg, len(got), len(want), termErr)
			return
		}
		if c.Carrier == "errafter" {
			if !errors.Is(termErr, errC14) {
				out.Violation = core.Viol("C14/bytereader-error", "terminal error %v, want the reader's failure", termErr)
			}
		} else if termErr != io.EOF {
			out.Violation = core.Viol("C14/bytereader-error", "terminal error %v, want io.EOF", termErr)
		}
		return
	default: // stealbytes
		wt, ok := msg.(io.WriterTo)
		if !ok {
			return core.Outcome{Inconclusive: "bad case: carrier is not a WriterTo"}
		}
		got, err := utils.StealBytes(wt)
		if err != nil || !bytes.Equal(got, want) {
			out.Violation = core.Viol("C14/stealbytes-differs:"+c.Carrier, "StealBytes(%T) = %d bytes, err %v; want %d bytes (first difference at %d)", msg, len(got), err, len(want), firstDiff(got, want))
			return
		}
		other := bytes.Repeat([]byte{0x5A}, imax(1, len(want)))
		_, _ = utils.StealBytes(bytes.NewReader(other))
		if !bytes.Equal(got, want) {
			out.Violation = core.Viol("C14/helper-result-changed-later:stealbytes:"+c.Carrier, "the %d bytes StealBytes(%T) returned were overwritten by a later conversion of another message (first difference at %d)", len(got), msg, firstDiff(got, want))
		}
		return
	}
}

func isReaderCarrier(k string) bool {
	switch k {
	case "buffer", "breader", "sreader", "bufio", "reader", "short", "eofdata", "errafter", "netbuffers", "limited", "limitedcut", "multi", "section", "exact", "breader-used", "sreader-used", "emptyreads": // *net.Buffers has a Read method
		return true
	}
	return false
}

func mustContent(c C14Case) []byte {
	b, _ := payloadBytes(wireNone, c.Size, c.Seed)
	return b
}

func TestC14(t *testing.T) {
	core.Main(t, core.Prop[C14Case]{
		ID:  "C14",
		Gen: genC14,
		Run: runC14,
		Summary: func(c C14Case) interface{} {
			return fmt.Sprintf("%+v", c)
		},
	})
}
