package props

import (
	"strings"
	"testing"
	"time"

	"pgregory.net/rapid"

	"verif/harness/core"
	"verif/harness/mock"
)

// C11 — writes on a closed channel fail and transmit nothing.

var c11Entries = []string{"write", "write1", "writev", "ctxwrite1", "ctxwritev", "readfrom", "writerwrite"}

// genC11Loser: one Close is still waiting for a stalled sender while a second Close call
// (which loses the election) has already returned; writes that begin after that return must fail.
func genC11Loser(t *rapid.T) E1Case {
	var c E1Case
	c.Kind = rapid.SampledFrom([]string{"qblock", "qnonblock"}).Draw(t, "kind")
	c.Queue = rapid.SampledFrom([]int{2, 4, 8}).Draw(t, "queue")
	c.Stall = "never"
	pre := E1Task{Role: "writer"}
	for i := rapid.IntRange(1, 2).Draw(t, "npre"); i > 0; i-- {
		pre.Ops = append(pre.Ops, E1Op{Op: "write1", Sizes: []int{rapid.IntRange(1, 9).Draw(t, "presz")}})
	}
	c.Tasks = append(c.Tasks, pre)
	c.Tasks = append(c.Tasks, E1Task{Role: "closer", After: []int{0}, Ops: []E1Op{{Op: "close", Err: rapid.SampledFrom([]string{"nil", "sentinel"}).Draw(t, "cerr1")}}})
	c.Tasks = append(c.Tasks, E1Task{Role: "closer", After: []int{0}, Ops: []E1Op{{Op: "close", Err: rapid.SampledFrom([]string{"nil", "wrapped"}).Draw(t, "cerr2")}}})
	w := E1Task{Role: "writer", After: []int{2}}
	for i := rapid.IntRange(2, 8).Draw(t, "reps"); i > 0; i-- {
		e := rapid.SampledFrom(c11Entries).Draw(t, "entry")
		op := E1Op{Op: e, Sizes: []int{rapid.IntRange(1, 20).Draw(t, "sz")}}
		if e == "readfrom" {
			op.N = 700
			op.EOFData = rapid.Bool().Draw(t, "eofdata")
		}
		w.Ops = append(w.Ops, op)
	}
	c.Tasks = append(c.Tasks, w)
	c.Prefix = []E1Dir{{Task: 0, Label: "\x00end"}, {Task: 1, Label: "close.wait"}}
	c.Schedule = genSchedule(t, 60)
	return c
}

func genC11(t *rapid.T) E1Case {
	if rapid.IntRange(0, 5).Draw(t, "loser") == 0 {
		return genC11Loser(t)
	}
	var c E1Case
	genKind(t, &c, []string{"sync", "qblock", "qblock", "qnonblock"})
	source := rapid.SampledFrom([]string{"user", "user", "user", "parentcancel", "peereof", "readfail", "senderfail", "user-after-parentcancel", "user-closefault"}).Draw(t, "source")
	if source == "senderfail" && c.Kind == "sync" {
		source = "user"
	}
	// optional traffic before the close
	if rapid.Bool().Draw(t, "pre") || source == "senderfail" {
		task := E1Task{Role: "writer"}
		for i := rapid.IntRange(1, 3).Draw(t, "npre"); i > 0; i-- {
			task.Ops = append(task.Ops, E1Op{Op: rapid.SampledFrom(e1Entries).Draw(t, "preentry"), Sizes: []int{rapid.IntRange(1, 40).Draw(t, "presz")}})
		}
		c.Tasks = append(c.Tasks, task)
	}
	closer := E1Task{Role: "closer"}
	switch source {
	case "user":
		closer.Ops = []E1Op{{Op: "close", Err: rapid.SampledFrom(closeErrKinds).Draw(t, "cerr")}}
	case "user-after-parentcancel":
		// the context the channel was created from has ended already (Shutdown cancels, then closes)
		closer.Ops = []E1Op{{Op: "cancelparent"}, {Op: "close", Err: rapid.SampledFrom(closeErrKinds).Draw(t, "cerr")}}
	case "user-closefault":
		// the transport's own Close reports an error
		c.Faults = []mock.Fault{{Op: "close", K: 1, Err: rapid.SampledFrom([]string{"plain", "neterr"}).Draw(t, "ferr")}}
		closer.Ops = []E1Op{{Op: "close", Err: rapid.SampledFrom(closeErrKinds).Draw(t, "cerr")}}
	case "parentcancel":
		closer.Ops = []E1Op{{Op: "cancelparent"}, {Op: "feed", N: 3}}
	case "peereof":
		closer.Ops = []E1Op{{Op: "peereof"}}
	case "readfail":
		closer.Ops = []E1Op{{Op: "failread", Err: rapid.SampledFrom([]string{"plain", "neterr"}).Draw(t, "rerr")}}
	case "senderfail":
		c.Faults = []mock.Fault{{Op: "wr", K: 1, Err: rapid.SampledFrom([]string{"plain", "neterr", "timeout"}).Draw(t, "ferr")}}
		closer.Ops = []E1Op{{Op: "feed", N: 1}}
	}
	c.Tasks = append(c.Tasks, closer)
	// the writer that starts after Close has returned
	after := E1Task{Role: "writer", After: []int{afterClosed}}
	entry := rapid.SampledFrom(c11Entries).Draw(t, "entry")
	n := rapid.IntRange(4, 12).Draw(t, "reps")
	for i := 0; i < n; i++ {
		e := entry
		if rapid.IntRange(0, 3).Draw(t, "mix") == 0 {
			e = rapid.SampledFrom(c11Entries).Draw(t, "entry2")
		}
		op := E1Op{Op: e, Sizes: []int{rapid.SampledFrom([]int{0, 1, 2, 9, 100, 1500}).Draw(t, "sz")}}
		if e == "writev" || e == "ctxwritev" {
			op.Sizes = append(op.Sizes, rapid.IntRange(0, 5).Draw(t, "sz2"))
		}
		if e == "ctxwrite1" || e == "ctxwritev" {
			op.Ctx = rapid.SampledFrom([]string{"", "", "live", "cancelled"}).Draw(t, "ctx")
		}
		if e == "readfrom" {
			op.N = 700
			op.EOFData = rapid.Bool().Draw(t, "eofdata")
		}
		after.Ops = append(after.Ops, op)
	}
	c.Tasks = append(c.Tasks, after)
	// optionally a writer that overlaps the close
	if rapid.IntRange(0, 2).Draw(t, "overlap") == 0 {
		ov := E1Task{Role: "writer"}
		for i := rapid.IntRange(1, 4).Draw(t, "nov"); i > 0; i-- {
			e := rapid.SampledFrom(e1Entries).Draw(t, "oventry")
			ov.Ops = append(ov.Ops, E1Op{Op: e, Sizes: []int{rapid.IntRange(1, 30).Draw(t, "ovsz")}})
		}
		c.Tasks = append(c.Tasks, ov)
	}
	c.Futile = drawFutile(t, []int{0, 0, 1})
	c.Schedule = genSchedule(t, 100)
	c.AnyCloseReturn = true
	return c
}

func runC11(c E1Case) (out core.Outcome) {
	r := newE1(c)
	defer func() { out.Classes = r.cls.List() }()
	r.execute()
	if r.incon != "" {
		out.Inconclusive = r.incon
		r.sweep(true)
		return
	}
	r.baseClasses()
	// terminal probe: a Write parked because a Close is still pending must really be waiting
	// (the harness parks it on the assumption that it would block; verify instead of assuming)
	for _, t := range r.tasks {
		if !t.Done() && t.Label() == "write.closing" && r.ch.Context().Err() == nil {
			e1cur = r
			back, state := r.s.ForceResume(t, 80*time.Millisecond)
			e1cur = nil
			if !back && !strings.Contains(state, "select") && !strings.Contains(state, "chan receive") {
				out.Inconclusive = "terminal probe: Write neither returned nor waits for the pending Close: " + state
				r.sweep(true)
				return
			}
			if back {
				r.cls.Add("probe:write-did-not-wait-for-pending-close")
			} else {
				r.cls.Add("probe:write-waits-for-pending-close")
			}
			break
		}
	}
	// release stalled senders: calls waiting for a pending Close may now finish
	r.sweep(false)
	defer func() {
		r.sweep(true)
		if out.Violation == nil && r.incon != "" {
			out.Inconclusive = r.incon
		}
	}()
	if msg := r.escapedPanic(); msg != "" {
		out.Inconclusive = "panic escaped an API call: " + msg
		return
	}
	var closedAt int
	var closeArgNil bool
	var closeArg interface{}
	if len(r.inactive) == 0 {
		// no inactive event: did a user's Close call return all the same?
		var ret *e1Call
		for _, cc := range r.closeCalls {
			if cc.End != 0 && cc.Who == "task" && (ret == nil || cc.End < ret.End) {
				ret = cc
			}
		}
		if ret == nil {
			r.cls.Add("never-closed")
			return
		}
		r.cls.Add("close-returned-without-inactive")
		closedAt, closeArgNil, closeArg = ret.End, ret.Err == nil, ret.Err
	} else {
		closedAt, closeArgNil, closeArg = r.inactiveSeq[0], r.inactive[0] == nil, r.inactive[0]
	}
	r.cls.Add("close-arg-nil:%v", closeArgNil)
	stream, _ := r.tr.Accepted()
	p, v := r.parseStream(stream)
	if v != nil {
		// unknown bytes / modified payloads are not this property's business unless they stem from post-close writes; report as is
		v.Sig = "C11/" + v.Sig[len("stream/"):]
		out.Violation = v
		return
	}
	in := map[int]bool{}
	for _, id := range p.order {
		in[id] = true
	}
	for _, id := range p.partialOK {
		in[id] = true
	}
	evs := r.tr.EventsCopy()
	closeSeq := 0
	for _, ev := range evs {
		if ev.Kind == "close" && !ev.Rejected {
			closeSeq = ev.Seq
			break
		}
	}
	for _, w := range r.calls {
		if !isWriteOp(w.Op.Op) || w.End == 0 {
			continue
		}
		afterClose := false
		for _, a := range r.c.Tasks[w.Task].After {
			switch {
			case a == afterClosed:
				afterClose = w.Begin > closedAt
			case a >= 0 && a < len(r.c.Tasks) && r.c.Tasks[a].Role == "closer":
				// after some Close call returned (possibly one that lost the election to a still pending Close)
				for _, cc := range r.closeCalls {
					if cc.Task == a && cc.End != 0 && w.Begin > cc.End {
						afterClose = true
						if cc.End < closedAt {
							r.cls.Add("after-losing-close-returned")
						}
					}
				}
			}
		}
		if afterClose {
			r.cls.Add("after-close:%s:%s", w.Op.Op, c.Kind)
			st := ""
			if c.Kind != "sync" {
				out.NonTrivial = true
			}
			if closeArgNil {
				out.NonTrivial = true
			}
			switch {
			case w.Err == nil:
				sig := "C11/success-after-close:" + w.Op.Op
				out.Violation = core.Viol(sig, "%s on a %s channel began after Close(%v) had returned and reported success (n=%d)%s", w.Op.Op, c.Kind, closeArg, w.N, st)
				return
			case w.N != 0 && w.Op.Op != "write":
				out.Violation = core.Viol("C11/count-after-close:"+w.Op.Op, "%s after Close returned (%d, %v)", w.Op.Op, w.N, w.Err)
				return
			case in[w.ID]:
				out.Violation = core.Viol("C11/bytes-after-close:"+w.Op.Op, "%s began after Close had returned, yet its bytes are in the transport stream", w.Op.Op)
				return
			}
			continue
		}
		// overlapping or earlier call: success must mean the bytes were (or will be) really transmitted
		if w.ok() && len(w.Payload) > 0 && !in[w.ID] && w.Begin > r.firstCloseBegin() && r.firstCloseBegin() > 0 {
			r.cls.Add("overlap-success-dropped")
			// "closed before the call" does not hold for an overlapping call: the statement does not cover it; counted only
		}
	}
	// nothing may be accepted by the transport after its Close event
	if closeSeq != 0 {
		for _, ev := range evs {
			if (ev.Kind == "write" || ev.Kind == "writev") && ev.Seq > closeSeq && !ev.Rejected && ev.End > ev.Start {
				out.Violation = core.Viol("C11/transport-accepted-after-close", "the transport accepted %d bytes after its Close", ev.End-ev.Start)
				return
			}
		}
	}
	return
}

func TestC11(t *testing.T) {
	core.Main(t, core.Prop[E1Case]{
		ID:      "C11",
		Gen:     genC11,
		Run:     runC11,
		Summary: summarizeE1,
	})
}
