//go:build !vclock

package props

import (
	"pgregory.net/rapid"

	"verif/harness/core"
)

// Virtual-time cases of C20 need the clock-redirected build (tag vclock, see cmd/vclockgen).

func c20Virtual() bool { return false }

func genC20V(t *rapid.T) C20Case { panic("virtual-time generation needs the vclock build") }

func runC20V(c C20Case) core.Outcome {
	return core.Outcome{Inconclusive: "virtual-time case: needs the vclock build"}
}
