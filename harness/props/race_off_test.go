//go:build !race

package props

const raceEnabled = false
