//go:build vclock

package props

import (
	"context"
	"fmt"
	"os"
	"time"

	netty "github.com/go-netty/go-netty"
	"pgregory.net/rapid"

	"verif/harness/core"
	"verif/harness/mock"
)

// C20, virtual-time stage (built with the tag vclock against the clock-redirected copy of /repo that
// cmd/vclockgen produces): the idle handlers run on a virtual clock (netty.VerifSetClock). One goroutine
// executes a generated timeline of clock advances, stimuli, an inactive event and *delayed timer callbacks*
// (a fired timer's callback is run when the timeline says so: the goroutine time.AfterFunc starts may be
// scheduled arbitrarily late). The oracle is exact: no slack.

func genC20VLine(t *rapid.T) C20VLine {
	l := C20VLine{Handlers: rapid.SampledFrom([]string{"read", "write", "both", "both"}).Draw(t, "handlers")}
	l.IdleMs = rapid.SampledFrom([]int{1000, 1000, 1500, 3000}).Draw(t, "idle")
	l.Prompt = rapid.Bool().Draw(t, "prompt")
	ops := []string{"adv", "adv", "advdue", "advdue", "advdue", "advdue", "run", "run", "run", "read", "read", "write", "write", "inactive"}
	n := rapid.IntRange(0, 14).Draw(t, "nsteps")
	for i := 0; i < n; i++ {
		s := C20VStep{Op: rapid.SampledFrom(ops).Draw(t, "op")}
		switch s.Op {
		case "adv":
			s.Ms = rapid.IntRange(1, 2*l.IdleMs+100).Draw(t, "ms")
		case "advdue":
			s.Ms = rapid.SampledFrom([]int{-50, -1, 0, 0, 0, 1, 50}).Draw(t, "delta")
		case "run":
			s.Idx = rapid.IntRange(0, 3).Draw(t, "idx")
		case "inactive":
			s.Ms = rapid.SampledFrom([]int{0, 0, 0, l.IdleMs - 1, l.IdleMs + 300, 2*l.IdleMs + 200}).Draw(t, "linger")
		case "read":
			// the handlers behind the idle handler may take (virtual) time with the message: a decoder waiting for the
			// rest of a frame, a slow consumer
			if rapid.IntRange(0, 4).Draw(t, "rslow") == 0 {
				s.Ms = rapid.SampledFrom([]int{300, l.IdleMs + 1, 2*l.IdleMs + 100, 3*l.IdleMs + 50}).Draw(t, "rms")
			}
		case "write":
			// what happens to the write behind the idle handler: nothing special, it takes Ms of (virtual) time in a
			// handler nearer the head (a slow transport), or it is refused there (full queue, failing encoder)
			switch rapid.IntRange(0, 5).Draw(t, "wkind") {
			case 0:
				s.Ms = rapid.SampledFrom([]int{1, 300, l.IdleMs - 1, l.IdleMs + 1}).Draw(t, "wslow")
			case 1:
				s.Idx = 1 // refused
			case 2:
				s.Idx = 1
				s.Ms = rapid.SampledFrom([]int{1, 300, l.IdleMs + 1}).Draw(t, "wslow")
			}
		}
		l.Steps = append(l.Steps, s)
	}
	l.OnActive = rapid.SampledFrom([]string{"", "", "", "", "", "close", "panic"}).Draw(t, "onactive")
	switch rapid.IntRange(0, 7).Draw(t, "special") {
	case 0:
		l.PanicOn = rapid.IntRange(1, 2).Draw(t, "panicon")
		l.ExcPanics = rapid.IntRange(0, 2).Draw(t, "excpanics") == 0
	case 1:
		l.CloseOn = rapid.IntRange(1, 2).Draw(t, "closeon")
	}
	return l
}

type c20vEvent struct {
	kind string
	at   time.Duration
}

type c20vObs struct {
	stims                                                                     []c20vEvent // stimuli and the activation ("active")
	events                                                                    []c20vEvent
	exceptions                                                                []error
	passed                                                                    bool          // the inactive event has passed the idle handlers
	passedAt                                                                  time.Duration // when
	firedAtPassed                                                             int           // timers that had fired by then
	afterInactive                                                             map[string]int
	cbPanics                                                                  []interface{}
	delayedAfterStim, pendingAtInactive, exactDue, lateStim, closedInTimeline bool
	slowWrite, refusedWrite, slowRead                                         bool
	viol                                                                      *core.Violation
}

func runC20VLine(l C20VLine) (*c20vObs, *core.Violation) {
	obs := &c20vObs{afterInactive: map[string]int{}}
	idle := time.Duration(l.IdleMs) * time.Millisecond
	clock := mock.NewClock()
	clock.Prompt = l.Prompt
	clock.OnCallbackPanic = func(v interface{}) { obs.cbPanics = append(obs.cbPanics, v) }
	fail := func(v *core.Violation) {
		if obs.viol == nil {
			obs.viol = v
		}
	}
	hasKind := func(k string) bool { return l.Handlers == k || l.Handlers == "both" }

	tr := mock.NewTransport(nil, false, nil)
	pl := netty.NewPipeline()
	// the read loop parks inside the last inbound handler (blocked in the transport's Read) until the channel is
	// closed; it never touches the observations. Inbound messages are fired by the timeline.
	ch := netty.NewChannel()(1, context.Background(), pl, tr, netty.AsyncExecutor())
	// nearer the head than the idle handlers: the rest of the outbound path (slow, or refusing the message)
	var wSlow time.Duration
	var wRefuse bool
	pl.AddLast(netty.OutboundHandlerFunc(func(ctx netty.OutboundContext, m netty.Message) {
		if wSlow > 0 {
			clock.Advance(wSlow)
		}
		if wRefuse {
			panic(fmt.Errorf("verif: write refused behind the idle handler"))
		}
		ctx.HandleWrite(m)
	}))
	if hasKind("read") {
		h := netty.ReadIdleHandler(idle)
		pl.AddLast(h)
	}
	if hasKind("write") {
		h := netty.WriteIdleHandler(idle)
		pl.AddLast(h)
	}
	netty.VerifSetClock(clock)
	defer netty.VerifSetClock(nil)
	lastStim := func(kind string) (time.Duration, bool) {
		for i := len(obs.stims) - 1; i >= 0; i-- {
			if obs.stims[i].kind == kind || obs.stims[i].kind == "active" {
				return obs.stims[i].at, true
			}
		}
		return 0, false
	}
	closed := false
	closeBegin := time.Duration(-1)
	lingerMs := 0
	nEvents := 0
	excPanicked := false
	var rSlow time.Duration
	pl.AddLast(netty.ActiveHandlerFunc(func(ctx netty.ActiveContext) {
		obs.stims = append(obs.stims, c20vEvent{"active", clock.Elapsed()})
		switch l.OnActive {
		case "close":
			if !closed {
				closed = true
				closeBegin = clock.Elapsed()
				ctx.Close(fmt.Errorf("verif: closed during activation"))
			}
			return
		case "panic":
			panic(fmt.Errorf("verif: active handler panic"))
		}
		ctx.HandleActive()
	}), netty.EventHandlerFunc(func(ctx netty.EventContext, ev netty.Event) {
		kind := ""
		switch ev.(type) {
		case netty.ReadIdleEvent:
			kind = "read"
		case netty.WriteIdleEvent:
			kind = "write"
		default:
			return
		}
		at := clock.Elapsed()
		obs.events = append(obs.events, c20vEvent{kind, at})
		nEvents++
		k := nEvents
		if !hasKind(kind) {
			fail(core.Viol("C20/v-idle-event-without-handler:"+kind, "a %s-idle event was delivered at %v but no %s-idle handler is installed", kind, at, kind))
		}
		if s, ok := lastStim(kind); !ok {
			fail(core.Viol("C20/v-idle-event-early:"+kind, "%s-idle event at %v before the channel was activated", kind, at))
		} else if at-s < idle {
			fail(core.Viol("C20/v-idle-event-early:"+kind, "%s-idle event at virtual time %v although the last %s (or the activation) was at %v: only %v of the idle time %v had elapsed", kind, at, kind, s, at-s, idle))
		}
		if obs.passed {
			obs.afterInactive[kind]++
			cur := clock.Current()
			if cur == nil || cur.Ord > obs.firedAtPassed {
				fail(core.Viol("C20/v-idle-event-after-inactive:"+kind, "%s-idle event at %v from a timer that fired after the inactive event had passed the handler (at %v): an idle period was still being timed", kind, at, obs.passedAt))
			} else if obs.afterInactive[kind] > 1 {
				fail(core.Viol("C20/v-idle-event-after-inactive:"+kind, "%d %s-idle events after the inactive event had passed the handler (at %v)", obs.afterInactive[kind], kind, obs.passedAt))
			}
		}
		if l.CloseOn == k && !closed {
			closed = true
			closeBegin = clock.Elapsed()
			ctx.Close(fmt.Errorf("verif: closed from the idle event handler"))
		}
		if l.PanicOn == k {
			panic(fmt.Sprintf("verif: idle event handler panic #%d", k))
		}
	}), netty.InactiveHandlerFunc(func(ctx netty.InactiveContext, ex netty.Exception) {
		if !obs.passed {
			obs.passed = true
			obs.passedAt = clock.Elapsed()
			obs.firedAtPassed = clock.Fired
			if clock.Pending() > 0 || clock.Current() != nil {
				obs.pendingAtInactive = true
			}
		}
		if lingerMs > 0 {
			clock.Advance(time.Duration(lingerMs) * time.Millisecond)
		}
		ctx.HandleInactive(ex)
	}), netty.InboundHandlerFunc(func(ctx netty.InboundContext, m netty.Message) {
		if _, fromTimeline := m.(string); fromTimeline && rSlow > 0 {
			clock.Advance(rSlow)
		}
		if rd, ok := m.(interface{ Read([]byte) (int, error) }); ok {
			buf := make([]byte, 64)
			if _, err := rd.Read(buf); err != nil {
				panic(err)
			}
		}
	}), netty.ExceptionHandlerFunc(func(ctx netty.ExceptionContext, ex netty.Exception) {
		obs.exceptions = append(obs.exceptions, ex)
		if l.ExcPanics && !excPanicked && ex != nil && containsStr(ex.Error(), "idle event handler panic") {
			excPanicked = true
			panic("verif: exception handler panic")
		}
	}))
	pl.ServeChannel(ch)
	// the read loop's own delivery (the transport as the message) parks in the last inbound handler: wait for that, so
	// that nothing of it runs beside the timeline
	if l.OnActive != "close" && !tr.WaitReadParked(10*time.Second) {
		return obs, nil
	}

	guard := func(f func()) {
		defer func() { _ = recover() }()
		f()
	}
	for _, s := range l.Steps {
		switch s.Op {
		case "adv":
			clock.Advance(time.Duration(s.Ms) * time.Millisecond)
		case "advdue":
			if due, ok := clock.NextDue(); ok {
				if d := due + time.Duration(s.Ms)*time.Millisecond - clock.Elapsed(); d >= 0 {
					if s.Ms == 0 {
						obs.exactDue = true
					}
					clock.Advance(d)
				}
			} else {
				clock.Advance(idle)
			}
		case "run":
			if call, ok := clock.RunPending(s.Idx); ok {
				for _, st := range obs.stims {
					if st.at >= call.FiredAt && st.kind != "active" {
						obs.delayedAfterStim = true
					}
				}
			}
		case "read":
			if closed {
				obs.lateStim = true
			}
			if s.Ms > 0 && l.Prompt && !closed {
				// the message has passed the idle handler once the handlers behind it are done with it; what the
				// timers do meanwhile is judged by the persistence rule (events keep coming while nothing passes)
				rSlow = time.Duration(s.Ms) * time.Millisecond
				obs.slowRead = true
				guard(func() { pl.FireChannelRead("inbound") })
				rSlow = 0
				obs.stims = append(obs.stims, c20vEvent{"read", clock.Elapsed()})
				break
			}
			obs.stims = append(obs.stims, c20vEvent{"read", clock.Elapsed()})
			guard(func() { pl.FireChannelRead("inbound") })
		case "write":
			// the write passes the idle handler now, whatever happens to it afterwards
			obs.stims = append(obs.stims, c20vEvent{"write", clock.Elapsed()})
			wSlow, wRefuse = time.Duration(s.Ms)*time.Millisecond, s.Idx == 1
			if wSlow > 0 {
				obs.slowWrite = true
			}
			if wRefuse {
				obs.refusedWrite = true
			}
			if closed {
				obs.lateStim = true
				guard(func() { pl.FireChannelWrite([]byte("late")) })
			} else {
				guard(func() { _ = ch.Write([]byte("out")) })
			}
			wSlow, wRefuse = 0, false
		case "inactive":
			if !closed {
				closed = true
				closeBegin = clock.Elapsed()
				lingerMs = s.Ms
				ch.Close(nil)
				lingerMs = 0
			}
		}
	}
	// final phase: callbacks in flight complete; then three more idle periods with prompt callbacks
	for {
		if _, ok := clock.RunPending(0); !ok {
			break
		}
	}
	clock.Prompt = true
	obs.closedInTimeline = closed
	t1 := clock.Elapsed()
	wasClosed := closed
	clock.Advance(3 * idle)
	if !wasClosed && !closed {
		for _, kind := range []string{"read", "write"} {
			if !hasKind(kind) {
				continue
			}
			n := 0
			for _, ev := range obs.events {
				if ev.kind == kind && ev.at >= t1 {
					n++
				}
			}
			if n == 0 {
				fail(core.Viol("C20/v-idle-event-missing:"+kind, "no %s-idle event during %v of idleness on an active channel (virtual time %v..%v, idle time %v, callbacks run at once)", kind, 3*idle, t1, clock.Elapsed(), idle))
			}
		}
	}
	// persistence during the timeline (only meaningful when callbacks were never delayed)
	if l.Prompt {
		activeUntil := clock.Elapsed()
		if closeBegin >= 0 {
			activeUntil = closeBegin
		}
		for _, kind := range []string{"read", "write"} {
			if !hasKind(kind) {
				continue
			}
			var marks []time.Duration
			i, j := 0, 0
			for i < len(obs.stims) || j < len(obs.events) { // both are in time order
				if j >= len(obs.events) || (i < len(obs.stims) && obs.stims[i].at <= obs.events[j].at) {
					if obs.stims[i].kind == kind || obs.stims[i].kind == "active" {
						marks = append(marks, obs.stims[i].at)
					}
					i++
				} else {
					if obs.events[j].kind == kind {
						marks = append(marks, obs.events[j].at)
					}
					j++
				}
			}
			marks = append(marks, activeUntil)
			for i := 1; i < len(marks); i++ {
				if marks[i] > activeUntil {
					break
				}
				if gap := marks[i] - marks[i-1]; gap > 2*idle {
					fail(core.Viol("C20/v-idle-event-missing:"+kind, "no %s-idle event between virtual time %v and %v on an active channel (%v of silence, idle time %v, callbacks run at once)", kind, marks[i-1], marks[i], gap, idle))
					break
				}
			}
		}
	}
	if closed {
		if n := clock.ActiveTimers(); n > 0 {
			fail(core.Viol("C20/v-timer-not-released", "%d timer(s) still armed %v after the inactive event had passed the idle handlers", n, clock.Elapsed()-obs.passedAt))
		}
		if !obs.passed {
			fail(core.Viol("C20/v-inactive-not-forwarded", "the channel was closed but the inactive event never reached the handler after the idle handlers"))
		}
	}
	if l.PanicOn > 0 && nEvents >= l.PanicOn {
		found := false
		for _, ex := range obs.exceptions {
			if ex != nil && containsStr(ex.Error(), "idle event handler panic") {
				found = true
			}
		}
		if !found {
			fail(core.Viol("C20/v-event-handler-panic-not-routed", "the idle event handler panicked on event %d but no exception was delivered (exceptions: %v)", l.PanicOn, obs.exceptions))
		}
	}
	if len(obs.cbPanics) > 0 && !l.ExcPanics {
		fail(core.Viol("C20/v-timer-goroutine-panic", "a panic escaped from the timer callback (it would have crashed the timer goroutine): %v", obs.cbPanics[0]))
	}
	if !closed {
		ch.Close(nil)
	}
	return obs, obs.viol
}

func genC20V(t *rapid.T) C20Case {
	var c C20Case
	n := rapid.IntRange(1, 4).Draw(t, "nlines")
	for i := 0; i < n; i++ {
		c.Virtual = append(c.Virtual, genC20VLine(t))
	}
	return c
}

func runC20V(c C20Case) (out core.Outcome) {
	cls := core.NewClassSet()
	defer func() { out.Classes = cls.List() }()
	for i, l := range c.Virtual {
		obs, v := runC20VLine(l)
		cls.Add("v:handlers:%s", l.Handlers)
		if l.Prompt {
			cls.Add("v:prompt-callbacks")
		} else {
			cls.Add("v:delayed-callbacks")
		}
		if len(obs.events) > 0 {
			cls.Add("v:idle-events-observed")
		}
		if obs.delayedAfterStim {
			cls.Add("v:callback-ran-after-later-stimulus")
			out.NonTrivial = true
		}
		if obs.closedInTimeline {
			cls.Add("v:inactive")
		}
		if obs.pendingAtInactive {
			cls.Add("v:inactive-with-callback-in-flight")
			out.NonTrivial = true
		}
		if obs.exactDue {
			cls.Add("v:advanced-to-exact-expiry")
		}
		if obs.lateStim {
			cls.Add("v:stimulus-after-inactive")
			out.NonTrivial = true
		}
		if obs.slowRead {
			cls.Add("v:read-slow-behind-handler")
			out.NonTrivial = true
		}
		if l.OnActive != "" {
			cls.Add("v:on-active:%s", l.OnActive)
			out.NonTrivial = true
		}
		if obs.slowWrite {
			cls.Add("v:write-slow-behind-handler")
			out.NonTrivial = true
		}
		if obs.refusedWrite {
			cls.Add("v:write-refused-behind-handler")
			out.NonTrivial = true
		}
		for _, s := range l.Steps {
			if s.Op == "inactive" && s.Ms > 0 && obs.passed {
				cls.Add("v:slow-downstream-inactive")
				out.NonTrivial = true
			}
		}
		if l.PanicOn > 0 && len(obs.events) >= l.PanicOn {
			cls.Add("v:event-handler-panicked")
			if l.ExcPanics {
				cls.Add("v:double-fault")
			}
			out.NonTrivial = true
		}
		if l.CloseOn > 0 && len(obs.events) >= l.CloseOn {
			cls.Add("v:closed-from-event-handler")
			out.NonTrivial = true
		}
		if v != nil {
			v.Msg = fmt.Sprintf("virtual timeline %d: %s", i, v.Msg)
			out.Violation = v
			return
		}
	}
	return
}

func c20Virtual() bool { return os.Getenv("VERIF_C20_MODE") == "virtual" }
