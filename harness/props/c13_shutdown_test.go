package props

import (
	"context"
	"errors"
	"fmt"
	"io"
	"net"
	"runtime"
	"sort"
	"strings"
	"sync"
	"testing"
	"time"

	netty "github.com/go-netty/go-netty"
	"github.com/go-netty/go-netty/transport/tcp"
	"pgregory.net/rapid"

	"verif/harness/core"
	"verif/harness/mock"
)

// C13 — Shutdown stops every listener and closes every channel, whenever it is called.

type C13Step struct {
	Op   string `json:"op"` // listen | async | sync | connect | inbound | closechan | peerclose | lclose | shutdown | release | acceptrelease | stallwrite
	I    int    `json:"i,omitempty"`
	Hold bool   `json:"hold,omitempty"` // executor actions submitted during this step are held until released
	Fail bool   `json:"fail,omitempty"` // async/sync: the first start fails in the bind (address in use); the same Listener is started once more right away
	Slow bool   `json:"slow,omitempty"` // async/sync: the factory's Listen parks until an "open" step (or the end); inbound: Accept has taken the connection but returns it only at an "acceptrelease" step (or the end)
}

type C13Case struct {
	Queue  int       `json:"queue"` // 0 = synchronous channels
	Steps  []C13Step `json:"steps"`
	Parent bool      `json:"parent,omitempty"` // the bootstrap is built WithContext(parent); a "cancelparent" step cancels the parent
	// ActivePanics: a handler behind the recorders panics in HandleActive for every second channel; the exception handler
	// logs it and keeps the channel open
	ActivePanics bool `json:"activepanics,omitempty"`
	// SlowInactive: the inactive handler of the first channel parks until an "inactiverelease" step (a handler that
	// cleans up slowly): a Shutdown that is closing that channel stands still in the middle of its work meanwhile
	SlowInactive bool `json:"slowinactive,omitempty"`
	// CrossClose: the inactive handler of a channel closes another channel that is still active (a relay closing its pair)
	CrossClose bool `json:"crossclose,omitempty"`
	// TCP (enumerated cases only): the shipped tcp transport on the loopback interface instead of the mock factory
	TCP *C13TCP `json:"tcp,omitempty"`
}

type C13TCP struct {
	SockBuf int  `json:"sockbuf"`
	Client  bool `json:"client"` // a client is connected when Shutdown comes
}

// enumC13: the listening socket itself. After Shutdown nobody is listening on the port any more: a connection attempt
// is refused and the address can be bound again.
func enumC13(emit func(C13Case)) {
	for _, sb := range []int{0, 1024, 65536} {
		for _, cl := range []bool{false, true} {
			emit(C13Case{TCP: &C13TCP{SockBuf: sb, Client: cl}})
		}
	}
}

func runC13TCP(c C13Case) (out core.Outcome) {
	out.Classes = []string{fmt.Sprintf("tcp:sockbuf=%d", c.TCP.SockBuf), "tcp-listener"}
	out.NonTrivial = true
	probe, err := net.Listen("tcp", "127.0.0.1:0")
	if err != nil {
		out.Classes = append(out.Classes, "tcp-skipped")
		return
	}
	addr := probe.Addr().String()
	_ = probe.Close()
	var mu sync.Mutex
	inactive := 0
	bs := netty.NewBootstrap(netty.WithChildInitializer(func(ch netty.Channel) {
		ch.Pipeline().AddLast(netty.InactiveHandlerFunc(func(ctx netty.InactiveContext, ex netty.Exception) {
			mu.Lock()
			inactive++
			mu.Unlock()
			ctx.HandleInactive(ex)
		}), netty.InboundHandlerFunc(func(ctx netty.InboundContext, m netty.Message) {
			buf := make([]byte, 64)
			if _, err := m.(io.Reader).Read(buf); err != nil {
				panic(err)
			}
		}), netty.ExceptionHandlerFunc(func(ctx netty.ExceptionContext, ex netty.Exception) { ctx.Close(ex) }))
	}))
	result := make(chan error, 1)
	bs.Listen("tcp://"+addr, tcp.WithOptions(&tcp.Options{SockBuf: c.TCP.SockBuf, NoDelay: true})).Async(func(err error) { result <- err })
	// wait until it listens
	var conn net.Conn
	for i := 0; i < 200; i++ {
		if conn, err = net.DialTimeout("tcp", addr, 200*time.Millisecond); err == nil {
			break
		}
		select {
		case e := <-result:
			// could not bind (the port was taken meanwhile): nothing to judge
			_ = e
			out.Classes = append(out.Classes, "tcp-skipped")
			return
		default:
		}
		time.Sleep(5 * time.Millisecond)
	}
	if conn == nil {
		out.Inconclusive = "tcp: the listener did not come up within a second"
		bs.Shutdown()
		return
	}
	if !c.TCP.Client {
		_ = conn.Close()
		time.Sleep(20 * time.Millisecond)
	} else {
		defer conn.Close()
	}
	done := make(chan struct{})
	go func() { bs.Shutdown(); close(done) }()
	select {
	case <-done:
	case <-time.After(10 * time.Second):
		out.Violation = core.Viol("C13/shutdown-blocked", "tcp: Shutdown did not return within 10 s")
		return
	}
	select {
	case e := <-result:
		if !errors.Is(e, netty.ErrServerClosed) {
			out.Violation = core.Viol("C13/accept-loop-error", "tcp: accept loop ended with %v, want ErrServerClosed", e)
			return
		}
	case <-time.After(5 * time.Second):
		out.Violation = core.Viol("C13/accept-loop-did-not-end", "tcp: the accept loop had not ended 5 s after Shutdown returned")
		return
	}
	// nobody listens any more
	for i := 0; i < 3; i++ {
		if c2, err := net.DialTimeout("tcp", addr, 300*time.Millisecond); err == nil {
			_ = c2.Close()
			out.Violation = core.Viol("C13/acceptor-left-open", "tcp (SockBuf %d): %s still accepts connections after Shutdown: the listening socket was not closed", c.TCP.SockBuf, addr)
			return
		}
	}
	l2, err := net.Listen("tcp", addr)
	if err != nil {
		out.Violation = core.Viol("C13/acceptor-left-open", "tcp (SockBuf %d): %s cannot be bound again after Shutdown: %v", c.TCP.SockBuf, addr, err)
		return
	}
	_ = l2.Close()
	return
}

type gatedAction struct {
	fn        func()
	fromServe bool
}

type gatedExec struct {
	tr   *mock.Tracker
	mu   sync.Mutex
	hold bool
	held []gatedAction
	n    int
}

func (g *gatedExec) Exec(a netty.Action) {
	fromServe := false
	var pcs [8]uintptr
	n := runtime.Callers(2, pcs[:])
	frames := runtime.CallersFrames(pcs[:n])
	for {
		f, more := frames.Next()
		if strings.HasSuffix(f.Function, ").serveChannel") {
			fromServe = true
		}
		if !more {
			break
		}
	}
	g.mu.Lock()
	g.n++
	if g.hold {
		g.held = append(g.held, gatedAction{fn: a, fromServe: fromServe})
		g.mu.Unlock()
		if fromServe {
			g.tr.End() // the caller now blocks until this action has delivered the activation
		}
		return
	}
	g.mu.Unlock()
	g.tr.Go(a)
}

func (g *gatedExec) release(k int) bool {
	g.mu.Lock()
	if len(g.held) == 0 {
		g.mu.Unlock()
		return false
	}
	k %= len(g.held)
	h := g.held[k]
	g.held = append(g.held[:k], g.held[k+1:]...)
	g.mu.Unlock()
	if h.fromServe {
		g.tr.Begin()
	}
	g.tr.Go(h.fn)
	return true
}

type c13Chan struct {
	ch       netty.Channel
	tr       *mock.Transport
	active   int
	inactive int
	order    []string
	stalled  bool
}

type c13Listener struct {
	l         netty.Listener
	url       string
	started   bool
	results   []error
	closedPre bool // Listener.Close was called explicitly before Shutdown
	reused    bool // its address was given to a later listener
}

func genC13(t *rapid.T) C13Case {
	var c C13Case
	c.Queue = rapid.SampledFrom([]int{0, 0, 8}).Draw(t, "queue")
	c.Parent = rapid.IntRange(0, 3).Draw(t, "parent") == 1
	c.ActivePanics = rapid.IntRange(0, 3).Draw(t, "activepanics") == 1
	c.SlowInactive = rapid.IntRange(0, 3).Draw(t, "slowinactive") == 2
	c.CrossClose = rapid.IntRange(0, 3).Draw(t, "crossclose") == 2
	if rapid.IntRange(0, 19).Draw(t, "reusepattern") == 11 {
		// an address that is closed and listened on again while the first listener is still on its way in or out:
		// its start parks in the bind (slow) or its accept loop has not been scheduled yet (hold)
		first := C13Step{Op: rapid.SampledFrom([]string{"async", "sync"}).Draw(t, "rmode")}
		if rapid.Bool().Draw(t, "rslow") {
			first.Slow = true
		} else {
			first.Hold = true
		}
		c.Steps = []C13Step{first, {Op: "lclose", I: 0}, {Op: "async", I: 1}}
		tail := []C13Step{{Op: "open"}, {Op: "release"}, {Op: "release", I: 1}, {Op: "inbound", I: 1}, {Op: "shutdown"}, {Op: "lclose", I: 0}}
		for _, k := range rapid.Permutation([]int{0, 1, 2, 3, 4, 5}).Draw(t, "rorder") {
			c.Steps = append(c.Steps, tail[k])
		}
		hasShutdown := false
		for _, st := range c.Steps {
			hasShutdown = hasShutdown || st.Op == "shutdown"
		}
		if !hasShutdown {
			c.Steps = append(c.Steps, C13Step{Op: "shutdown"})
		}
		return c
	}
	nl := 0
	n := rapid.IntRange(1, 12).Draw(t, "nsteps")
	shutdownAt := rapid.IntRange(0, n).Draw(t, "shutdownat")
	for i := 0; i <= n; i++ {
		if i == shutdownAt {
			c.Steps = append(c.Steps, C13Step{Op: "shutdown"})
			continue
		}
		after := i > shutdownAt
		var ops []string
		if after {
			ops = []string{"release", "release", "inbound", "open", "acceptrelease", "acceptrelease", "inactiverelease"}
		} else {
			ops = []string{"listen", "listen", "inbound", "inbound", "connect", "closechan", "peerclose", "lclose", "release", "open", "cancelparent", "acceptrelease", "stallwrite"}
			if nl >= 3 {
				ops = ops[2:]
			}
		}
		st := C13Step{Op: rapid.SampledFrom(ops).Draw(t, "op"), I: rapid.IntRange(0, 5).Draw(t, "i")}
		switch st.Op {
		case "listen":
			nl++
			st.Op = rapid.SampledFrom([]string{"async", "async", "async", "sync", "listen"}).Draw(t, "lmode")
			st.Hold = rapid.Bool().Draw(t, "hold")
			st.Slow = st.Op != "listen" && rapid.IntRange(0, 3).Draw(t, "slow") == 0
			st.Fail = st.Op != "listen" && !st.Slow && !st.Hold && rapid.IntRange(0, 4).Draw(t, "failfirst") == 0
		case "connect", "inbound":
			st.Hold = rapid.IntRange(0, 2).Draw(t, "hold") == 0
			st.Slow = st.Op == "inbound" && !after && rapid.IntRange(0, 2).Draw(t, "slowaccept") == 0
		}
		c.Steps = append(c.Steps, st)
	}
	return c
}

func runC13(c C13Case) (out core.Outcome) {
	if c.TCP != nil {
		return runC13TCP(c)
	}
	cls := core.NewClassSet()
	defer func() { out.Classes = cls.List() }()
	tracker := mock.NewTracker()
	ex := &gatedExec{tr: tracker}
	var mu sync.Mutex
	var chans []*c13Chan
	var transports []*mock.Transport
	newT := func() *mock.Transport {
		t := mock.NewTransport(nil, false, nil)
		t.Tracker = tracker
		mu.Lock()
		transports = append(transports, t)
		mu.Unlock()
		return t
	}
	factory := &mock.Factory{Tracker: tracker, NewT: newT}
	slowGate := make(chan struct{})
	var slowMu sync.Mutex
	slowReleased, slowWaiting := false, 0
	releaseSlow := func() bool {
		slowMu.Lock()
		defer slowMu.Unlock()
		if slowReleased {
			return false
		}
		slowReleased = true
		for ; slowWaiting > 0; slowWaiting-- {
			tracker.Begin() // on behalf of the parked handler
		}
		close(slowGate)
		return true
	}
	parkSlow := func() {
		slowMu.Lock()
		if slowReleased {
			slowMu.Unlock()
			return
		}
		slowWaiting++
		tracker.End()
		slowMu.Unlock()
		<-slowGate
	}
	initializer := func(ch netty.Channel) {
		cc := &c13Chan{ch: ch, tr: ch.Transport().(*mock.Transport)}
		mu.Lock()
		chans = append(chans, cc)
		mu.Unlock()
		ch.Pipeline().AddLast(netty.ActiveHandlerFunc(func(ctx netty.ActiveContext) {
			mu.Lock()
			cc.active++
			cc.order = append(cc.order, "active")
			mu.Unlock()
			ctx.HandleActive()
		}), netty.InactiveHandlerFunc(func(ctx netty.InactiveContext, ex netty.Exception) {
			mu.Lock()
			cc.inactive++
			cc.order = append(cc.order, "inactive")
			first := len(chans) > 0 && chans[0] == cc
			var other *c13Chan
			if c.CrossClose {
				for _, x := range chans {
					if x != cc && x.active > 0 && x.inactive == 0 && !x.stalled {
						other = x
						break
					}
				}
			}
			mu.Unlock()
			if other != nil {
				cls.Add("inactive-handler-closes-another-channel")
				other.ch.Close(fmt.Errorf("verif: closed together with its pair"))
			}
			if c.SlowInactive && first {
				cls.Add("slow-inactive-handler")
				parkSlow()
			}
			ctx.HandleInactive(ex)
		}), netty.InboundHandlerFunc(func(ctx netty.InboundContext, m netty.Message) {
			buf := make([]byte, 64)
			if _, err := m.(io.Reader).Read(buf); err != nil {
				panic(err)
			}
		}), netty.ExceptionHandlerFunc(func(ctx netty.ExceptionContext, ex netty.Exception) {
			if ex != nil && strings.Contains(ex.Error(), "verif: active handler panic") {
				return // logged, the channel stays open
			}
			ctx.Close(ex)
		}))
		if c.ActivePanics {
			mu.Lock()
			k := len(chans)
			mu.Unlock()
			if k%2 == 1 {
				ch.Pipeline().AddLast(netty.ActiveHandlerFunc(func(ctx netty.ActiveContext) {
					panic(fmt.Errorf("verif: active handler panic"))
				}))
			}
		}
	}
	chFactory := netty.NewChannel()
	if c.Queue > 0 {
		chFactory = netty.NewAsyncWriteChannel(c.Queue, true)
	}
	opts := []netty.Option{netty.WithTransport(factory), netty.WithExecutor(ex), netty.WithChannel(chFactory),
		netty.WithChildInitializer(initializer), netty.WithClientInitializer(initializer)}
	parentCtx, parentCancel := context.WithCancel(context.Background())
	defer parentCancel()
	if c.ActivePanics {
		cls.Add("active-handler-panics")
	}
	if c.Parent {
		opts = append(opts, netty.WithContext(parentCtx))
		cls.Add("with-parent-context")
	}
	bs := netty.NewBootstrap(opts...)

	var listeners []*c13Listener
	shutdownDone := false
	settle := func(what string) bool {
		if !tracker.WaitIdle(10 * time.Second) {
			// nothing has moved for 10 s. A goroutine that sits in a lock or channel operation inside the framework
			// (not in one of the mocks, which report their parking) will never move again: that is a hang, not slowness
			if blocked := blockedInFramework(); blocked != "" && shutdownDone {
				time.Sleep(500 * time.Millisecond)
				if again := blockedInFramework(); again != "" {
					out.Violation = core.Viol("C13/shutdown-blocked", "after %s nothing moves any more and a goroutine is blocked inside the framework, so Shutdown never completes and channels stay open:\n%s", what, again)
					return false
				}
			}
			out.Inconclusive = fmt.Sprintf("after %s: %d goroutines still running after 10 s", what, tracker.Busy())
			return false
		}
		return true
	}
	overlapLate, overlapAccepted := false, false
	for si, st := range c.Steps {
		ex.mu.Lock()
		ex.hold = st.Hold
		ex.mu.Unlock()
		what := fmt.Sprintf("step %d (%s)", si, st.Op)
		switch st.Op {
		case "listen", "async", "sync":
			url := fmt.Sprintf("mock://host:%d", 1000+len(listeners))
			// sometimes the address of a listener that was closed explicitly is used again
			if st.I%4 != 0 {
				for _, old := range listeners {
					if old.closedPre && !old.reused {
						url, old.reused = old.url, true
						cls.Add("url-reused-after-close")
						break
					}
				}
			}
			l := &c13Listener{url: url}
			if st.Slow {
				factory.Gate(url)
				cls.Add("slow-listen")
			}
			if pv := mock.Catch(func() { l.l = bs.Listen(url) }); pv != nil {
				out.Inconclusive = fmt.Sprintf("%s: Listen panicked: %v", what, pv)
				return
			}
			listeners = append(listeners, l)
			if st.Fail {
				// first start: the bind fails; the application retries with the same Listener object
				factory.FailNextListen(url)
				if err := l.l.Sync(); err == nil {
					out.Inconclusive = what + ": Sync did not report the listen failure"
					return
				}
				cls.Add("listener-started-again-after-failed-bind")
			}
			switch st.Op {
			case "async":
				l.started = true
				l.l.Async(func(err error) {
					mu.Lock()
					l.results = append(l.results, err)
					mu.Unlock()
				})
			case "sync":
				l.started = true
				// Sync runs on a caller's goroutine; "held" means that goroutine has not been scheduled yet
				fn := func() {
					err := l.l.Sync()
					mu.Lock()
					l.results = append(l.results, err)
					mu.Unlock()
				}
				if st.Hold {
					ex.mu.Lock()
					ex.held = append(ex.held, gatedAction{fn: fn})
					ex.mu.Unlock()
				} else {
					tracker.Go(fn)
				}
			}
		case "connect":
			tracker.Go(func() { _, _ = bs.Connect("mock://peer:1") })
		case "inbound":
			accs := factory.AcceptorsCopy()
			if len(accs) == 0 {
				continue
			}
			a := accs[st.I%len(accs)]
			if st.Slow {
				if a.HandSlow(newT()) {
					cls.Add("inbound-handed")
					cls.Add("accept-in-flight")
				}
			} else if a.Hand(newT()) {
				cls.Add("inbound-handed")
			}
		case "stallwrite":
			// a synchronous write is blocked in the transport (the peer has stopped reading) when Shutdown comes.
			// Only on synchronous channels: a channel created to wait for pending writes waits for its sender by design (C06)
			if c.Queue > 0 || shutdownDone {
				continue
			}
			mu.Lock()
			var cc *c13Chan
			for _, x := range chans {
				if x.active > 0 && x.inactive == 0 && !x.stalled {
					cc = x
					break
				}
			}
			if cc != nil {
				cc.stalled = true
			}
			mu.Unlock()
			if cc == nil {
				continue
			}
			cc.tr.SetStall(true)
			cls.Add("write-blocked-in-transport")
			tracker.Go(func() { _ = cc.ch.Write([]byte("the peer does not read this")) })
		case "inactiverelease":
			if releaseSlow() && shutdownDone {
				cls.Add("shutdown-stood-still-inside-a-slow-inactive-handler")
			}
		case "acceptrelease":
			for _, a := range factory.AcceptorsCopy() {
				if a.ReleaseAccept() {
					if shutdownDone {
						cls.Add("overlap:accept-returned-a-connection-after-shutdown")
						overlapAccepted = true
					}
					break
				}
			}
		case "closechan", "peerclose":
			// only channels that were handed out (activation done): nobody else holds the others yet
			mu.Lock()
			var live []*c13Chan
			for _, x := range chans {
				if x.active > 0 {
					live = append(live, x)
				}
			}
			var cc *c13Chan
			if len(live) > 0 {
				cc = live[st.I%len(live)]
			}
			mu.Unlock()
			if cc == nil {
				continue
			}
			if st.Op == "closechan" {
				tracker.Go(func() { cc.ch.Close(fmt.Errorf("verif: user close")) })
			} else {
				cc.tr.PeerClose()
			}
		case "lclose":
			if len(listeners) == 0 {
				continue
			}
			l := listeners[st.I%len(listeners)]
			if !shutdownDone {
				l.closedPre = true
				cls.Add("listener-closed-before-shutdown")
			}
			_ = l.l.Close()
		case "shutdown":
			// classify the overlaps this placement produces
			ex.mu.Lock()
			for _, h := range ex.held {
				if h.fromServe {
					overlapAccepted = true
				} else {
					overlapLate = true
				}
			}
			ex.mu.Unlock()
			switch {
			case si == 0:
				cls.Add("shutdown:first")
			case si == len(c.Steps)-1:
				cls.Add("shutdown:last")
			default:
				cls.Add("shutdown:middle")
			}
			tracker.Go(func() { bs.Shutdown() })
			shutdownDone = true
		case "cancelparent":
			if c.Parent && !shutdownDone {
				parentCancel()
				cls.Add("parent-cancelled-before-shutdown")
			}
		case "release":
			if ex.release(st.I) {
				cls.Add("late-release")
			}
		case "open":
			if urls := factory.GatedURLs(); len(urls) > 0 {
				sort.Strings(urls)
				factory.OpenGate(urls[st.I%len(urls)])
			}
		}
		if !settle(what) {
			return
		}
	}
	// every action handed to the executor eventually runs, every Listen eventually returns
	for {
		progressed := ex.release(0)
		if !progressed && releaseSlow() {
			progressed = true
		}
		for _, a := range factory.AcceptorsCopy() {
			if a.ReleaseAccept() {
				progressed = true
				if shutdownDone {
					cls.Add("overlap:accept-returned-a-connection-after-shutdown")
					overlapAccepted = true
				}
			}
		}
		if urls := factory.GatedURLs(); len(urls) > 0 {
			sort.Strings(urls)
			factory.OpenGate(urls[0])
			progressed = true
		}
		if !progressed {
			break
		}
		if !settle("final release") {
			return
		}
	}
	if !settle("end") {
		return
	}
	if overlapLate {
		cls.Add("overlap:accept-loop-not-started")
	}
	if overlapAccepted {
		cls.Add("overlap:accepted-not-yet-active")
	}
	out.NonTrivial = overlapLate || overlapAccepted

	// --- the stuck state: nothing runs, nothing is pending
	if bs.Context().Err() == nil {
		out.Violation = core.Viol("C13/context-not-cancelled", "after Shutdown the bootstrap context is not cancelled")
		return
	}
	for i, a := range factory.AcceptorsCopy() {
		closed, closeN, waiting, _ := a.State()
		if !closed || closeN < 1 {
			sig := "C13/acceptor-left-open"
			out.Violation = core.Viol(sig, "acceptor %d (%s) was created but never closed: a listener is left accepting after Shutdown (accept outstanding: %v)", i, a.URL, waiting)
			return
		}
		if waiting {
			out.Violation = core.Viol("C13/accept-outstanding", "acceptor %d (%s) is closed but an Accept call is still parked", i, a.URL)
			return
		}
	}
	for i, a := range factory.AcceptorsCopy() {
		for k, t := range a.AcceptedCopy() {
			if mt, ok := t.(*mock.Transport); ok && mt.CloseCount() != 1 {
				out.Violation = core.Viol("C13/accepted-connection-left-open", "acceptor %d (%s): connection %d was returned by Accept but its transport was closed %d times: a connection accepted around Shutdown is left open", i, a.URL, k, mt.CloseCount())
				return
			}
		}
	}
	mu.Lock()
	defer mu.Unlock()
	for i, l := range listeners {
		if !l.started {
			continue
		}
		if len(l.results) != 1 {
			out.Violation = core.Viol("C13/accept-loop-did-not-end", "listener %d (%s): accept loop returned %d times after Shutdown (want exactly once)", i, l.url, len(l.results))
			return
		}
		if !l.closedPre && !errors.Is(l.results[0], netty.ErrServerClosed) {
			out.Violation = core.Viol("C13/accept-loop-error", "listener %d (%s): accept loop ended with %v, want ErrServerClosed", i, l.url, l.results[0])
			return
		}
	}
	for i, cc := range chans {
		if n := cc.tr.CloseCount(); n != 1 {
			out.Violation = core.Viol("C13/channel-not-closed", "channel %d: transport closed %d times after Shutdown (active %d, inactive %d)", i, n, cc.active, cc.inactive)
			return
		}
		if cc.inactive != 1 || cc.active > 1 {
			out.Violation = core.Viol("C13/channel-events", "channel %d: active delivered %d times, inactive %d times (%v)", i, cc.active, cc.inactive, cc.order)
			return
		}
		if len(cc.order) > 0 && cc.order[len(cc.order)-1] != "inactive" {
			out.Violation = core.Viol("C13/channel-events", "channel %d: event order %v", i, cc.order)
			return
		}
		if cc.ch.IsActive() {
			out.Violation = core.Viol("C13/channel-not-closed", "channel %d still reports IsActive", i)
			return
		}
	}
	if len(chans) > 0 {
		cls.Add("channels")
	}
	return
}

// blockedInFramework returns the stack of a goroutine that is blocked in a lock or channel operation with a
// go-netty frame on top of any harness frame ("" if there is none).
func blockedInFramework() string {
	buf := make([]byte, 1<<20)
	buf = buf[:runtime.Stack(buf, true)]
	for _, g := range strings.Split(string(buf), "\n\n") {
		head, rest, ok := strings.Cut(g, "\n")
		if !ok {
			continue
		}
		blocked := false
		for _, st := range []string{"sync.Mutex.Lock", "semacquire", "sync.RWMutex", "chan receive", "chan send", "select"} {
			if strings.Contains(head, "["+st) {
				blocked = true
			}
		}
		if !blocked {
			continue
		}
		// the innermost non-runtime, non-sync frame decides who is waiting
		for _, line := range strings.Split(rest, "\n") {
			if strings.HasPrefix(line, "\t") || strings.HasPrefix(line, "runtime.") || strings.HasPrefix(line, "sync.") || strings.HasPrefix(line, "internal/") {
				continue
			}
			if strings.HasPrefix(line, "github.com/go-netty/go-netty.") {
				if len(g) > 1500 {
					g = g[:1500]
				}
				return g
			}
			break
		}
	}
	return ""
}

func TestC13(t *testing.T) {
	core.Main(t, core.Prop[C13Case]{
		ID:   "C13",
		Gen:  genC13,
		Run:  runC13,
		Enum: enumC13,
	})
}
