package props

import (
	"fmt"
	"strings"
	"testing"

	netty "github.com/go-netty/go-netty"
	"pgregory.net/rapid"

	"verif/harness/core"
	"verif/harness/mock"
)

// C03 — pipeline order and event routing match the handler-list model.

func genHSpec(t *rapid.T, allowActs []string, exceptionSafe bool) HSpec {
	var s HSpec
	switch rapid.IntRange(0, 5).Draw(t, "ik") {
	case 0:
		s.Ifaces = 1 << uint(rapid.IntRange(0, 5).Draw(t, "one"))
	case 1:
		s.Ifaces = 63
	default:
		s.Ifaces = uint8(rapid.IntRange(1, 63).Draw(t, "ifaces"))
	}
	s.Stop = uint8(rapid.IntRange(0, 63).Draw(t, "stop")) & uint8(rapid.IntRange(0, 63).Draw(t, "stop2"))
	if len(allowActs) > 0 {
		n := rapid.IntRange(0, 2).Draw(t, "nacts")
		for i := 0; i < n; i++ {
			a := HAct{On: rapid.IntRange(0, 5).Draw(t, "on"), Do: rapid.SampledFrom(allowActs).Draw(t, "do")}
			if exceptionSafe && (a.On == kException || a.On == kInactive) {
				continue
			}
			s.Acts = append(s.Acts, a)
		}
	}
	return s
}

func genBuild(t *rapid.T, pool int, negatives bool) []BuildOp {
	var ops []BuildOp
	size := 2
	n := rapid.IntRange(0, 10).Draw(t, "nbuild")
	for i := 0; i < n; i++ {
		op := BuildOp{Op: rapid.SampledFrom([]string{"first", "last", "at", "at"}).Draw(t, "bop")}
		k := rapid.IntRange(1, 3).Draw(t, "nh")
		for j := 0; j < k; j++ {
			op.H = append(op.H, rapid.IntRange(0, pool-1).Draw(t, "h"))
		}
		if op.Op == "at" {
			op.Pos = rapid.IntRange(-1, size-1).Draw(t, "pos")
			if negatives && rapid.IntRange(0, 14).Draw(t, "badpos") == 0 {
				op.Pos = size + rapid.IntRange(0, 2).Draw(t, "over")
			}
		}
		ops = append(ops, op)
		size += k // may over-count when the op is expected to panic; positions stay legal then
	}
	return ops
}

func genC03(t *rapid.T) E3Case {
	var c E3Case
	np := rapid.IntRange(1, 6).Draw(t, "pool")
	for i := 0; i < np; i++ {
		c.Handlers = append(c.Handlers, genHSpec(t, []string{"ctxwrite", "ctxtrigger"}, false))
	}
	if rapid.IntRange(0, 9).Draw(t, "nointerface") == 0 {
		c.Handlers[0].Ifaces = 0 // a handler implementing none of the interfaces must be refused
	}
	c.Build = genBuild(t, np, true)
	c.Queue = rapid.SampledFrom([]int{0, 0, 4}).Draw(t, "queue")
	ne := rapid.IntRange(1, 8).Draw(t, "nev")
	for i := 0; i < ne; i++ {
		ev := E3Event{Entry: rapid.SampledFrom([]string{"fire", "fire", "fire", "chwrite", "chtrigger", "readloop", "ctxwrite", "ctxtrigger"}).Draw(t, "entry")}
		switch ev.Entry {
		case "fire":
			ev.Kind = rapid.SampledFrom([]int{kRead, kWrite, kEvent, kException, kRead, kWrite, kEvent}).Draw(t, "kind")
		case "ctxwrite", "ctxtrigger":
			ev.At = rapid.IntRange(0, 14).Draw(t, "at")
		}
		c.Events = append(c.Events, ev)
	}
	// sometimes the pipeline keeps being built between events (sequentially; never while an event is in flight)
	if rapid.IntRange(0, 2).Draw(t, "late") == 0 {
		for k := rapid.IntRange(1, 3).Draw(t, "nlate"); k > 0; k-- {
			// never in front of the decoder (position 1), which turns transport reads into messages
			op := BuildOp{Op: rapid.SampledFrom([]string{"last", "at", "at"}).Draw(t, "lop"), H: []int{rapid.IntRange(0, np-1).Draw(t, "lh")}}
			if op.Op == "at" {
				op.Pos = rapid.IntRange(1, 12).Draw(t, "lpos") // taken modulo the size at that moment
			}
			c.Late = append(c.Late, LateBuild{After: rapid.IntRange(0, ne-1).Draw(t, "lafter"), Op: op})
		}
	}
	return c
}

// checkStructure compares Size/IndexOf/LastIndexOf/ContextAt with the model.
func checkStructure(r *e3Rig, m *e3Model, pool []netty.Handler, when string) *core.Violation {
	pl := r.pl
	if pl.Size() != m.size() {
		return core.Viol("C03/size", "%s: Size() = %d, model %d", when, pl.Size(), m.size())
	}
	if pl.ContextAt(-1) != nil || pl.ContextAt(m.size()) != nil || pl.ContextAt(m.size()+3) != nil {
		return core.Viol("C03/context-at-out-of-range", "%s: ContextAt outside [0,size) is not nil", when)
	}
	for i := 0; i < m.size(); i++ {
		ctx := pl.ContextAt(i)
		if ctx == nil {
			return core.Viol("C03/context-at", "%s: ContextAt(%d) = nil (size %d)", when, i, m.size())
		}
		inst := m.hs[i].inst
		if inst >= 0 && ctx.Handler() != pool[inst] {
			return core.Viol("C03/order", "%s: position %d holds another handler than the model's instance %d", when, i, inst)
		}
		if inst < 0 && inst != -1 {
			for _, h := range pool {
				if ctx.Handler() == h {
					return core.Viol("C03/order", "%s: position %d (head/tail) holds a user handler", when, i)
				}
			}
		}
	}
	// predicates: identity of each pool instance, implements kind k, always false
	for pi, h := range pool {
		h := h
		wantFirst, wantLast := -1, -1
		for i, mh := range m.hs {
			if mh.inst == pi {
				if wantFirst < 0 {
					wantFirst = i
				}
				wantLast = i
			}
		}
		if got := pl.IndexOf(func(x netty.Handler) bool { return x == h }); got != wantFirst {
			return core.Viol("C03/index-of", "%s: IndexOf(instance %d) = %d, model %d", when, pi, got, wantFirst)
		}
		if got := pl.LastIndexOf(func(x netty.Handler) bool { return x == h }); got != wantLast {
			return core.Viol("C03/last-index-of", "%s: LastIndexOf(instance %d) = %d, model %d (walking the back links)", when, pi, got, wantLast)
		}
	}
	preds := []func(netty.Handler) bool{
		func(x netty.Handler) bool { _, ok := x.(netty.ActiveHandler); return ok },
		func(x netty.Handler) bool { _, ok := x.(netty.InboundHandler); return ok },
		func(x netty.Handler) bool { _, ok := x.(netty.OutboundHandler); return ok },
		func(x netty.Handler) bool { _, ok := x.(netty.ExceptionHandler); return ok },
		func(x netty.Handler) bool { _, ok := x.(netty.InactiveHandler); return ok },
		func(x netty.Handler) bool { _, ok := x.(netty.EventHandler); return ok },
	}
	for k, pred := range preds {
		wantFirst, wantLast := -1, -1
		for i := range m.hs {
			if m.implements(i, k) {
				if wantFirst < 0 {
					wantFirst = i
				}
				wantLast = i
			}
		}
		if got := pl.IndexOf(pred); got != wantFirst {
			return core.Viol("C03/index-of", "%s: IndexOf(implements %s) = %d, model %d", when, kindNames[k], got, wantFirst)
		}
		if got := pl.LastIndexOf(pred); got != wantLast {
			return core.Viol("C03/last-index-of", "%s: LastIndexOf(implements %s) = %d, model %d", when, kindNames[k], got, wantLast)
		}
	}
	never := func(netty.Handler) bool { return false }
	if pl.IndexOf(never) != -1 || pl.LastIndexOf(never) != -1 {
		return core.Viol("C03/index-of", "%s: IndexOf/LastIndexOf of an always-false predicate is not -1", when)
	}
	return nil
}

// compareTraces checks the real trace against the model trace, including context identity.
func compareTraces(r *e3Rig, m *e3Model, real []e3Ev, from int, what string, sigPrefix string) *core.Violation {
	var model []e3Ev
	for _, e := range m.trace {
		if e.H != -3 {
			model = append(model, e)
		}
	}
	render := func(t []e3Ev) string {
		s := ""
		for _, e := range t {
			s += e.String() + " "
		}
		return s
	}
	realTail, modelTail := real[imin(from, len(real)):], model[imin(from, len(model)):]
	// first difference, with a little context
	n := imin(len(real), len(model))
	for i := from; i < n; i++ {
		a, b := real[i], model[i]
		if a.H != b.H || (a.H >= 0 && a.Kind != b.Kind) || !msgMatches(a.Msg, b.Msg) {
			lo := imax(from, i-3)
			return core.Viol(sigPrefix+"/trace-differs", "%s: step %d of %d/%d: real %s, model %s; context real [%s] model [%s]", what, i-from, len(realTail), len(modelTail), a, b, render(real[lo:imin(len(real), i+3)]), render(model[lo:imin(len(model), i+3)]))
		}
	}
	if len(real) != len(model) {
		lo := imax(from, n-3)
		return core.Viol(sigPrefix+"/trace-differs", "%s: real trace has %d steps, model %d; after the common part: real [%s] model [%s]", what, len(realTail), len(modelTail), render(real[lo:imin(len(real), n+4)]), render(model[lo:imin(len(model), n+4)]))
	}
	for i := from; i < len(real); i++ {
		a, b := real[i], model[i]
		if a.H != b.H || (a.H >= 0 && a.Kind != b.Kind) || !msgMatches(a.Msg, b.Msg) {
			return core.Viol(sigPrefix+"/trace-differs", "%s: step %d real %s, model %s; real [%s] model [%s]", what, i-from, a, b, render(realTail), render(modelTail))
		}
		if a.H >= 0 {
			want := r.pl.ContextAt(b.Pos)
			if a.ctx != want {
				return core.Viol(sigPrefix+"/context-not-bound-to-position", "%s: %s was invoked with a context that is not ContextAt(%d)", what, a, b.Pos)
			}
			if a.ctx.Handler() != r.pool[a.H] {
				return core.Viol(sigPrefix+"/context-handler", "%s: context passed to %s reports another handler", what, a)
			}
		}
	}
	return nil
}

// msgMatches compares a real payload id with the model's. The model leaves open what the statement leaves open:
// "x:*" is any exception (e.g. the error a write on a closed channel is refused with), "x:~text" an exception whose
// message contains text (a panic value that is not an error is converted, the conversion is not specified).
func msgMatches(real, model string) bool {
	switch {
	case model == "x:*":
		return strings.HasPrefix(real, "x:")
	case strings.HasPrefix(model, "x:~"):
		return strings.HasPrefix(real, "x:") && strings.Contains(real, model[3:])
	}
	return real == model
}

func (r *e3Rig) installWireProbes() {
	r.tr.OnAccept = func(b []byte) {
		r.mu.Lock()
		r.trace = append(r.trace, e3Ev{H: -2, Msg: string(b)})
		r.mu.Unlock()
	}
	r.tr.OnClose = func() {
		r.mu.Lock()
		r.trace = append(r.trace, e3Ev{H: -4})
		r.mu.Unlock()
	}
}

func runC03(c E3Case) (out core.Outcome) {
	cls := core.NewClassSet()
	defer func() { out.Classes = cls.List() }()
	r := newE3Rig(c)
	m := newE3Model()
	r.installWireProbes()
	middle := false
	for bi, op := range c.Build {
		for _, hi := range op.H {
			if hi < 0 || hi >= len(c.Handlers) {
				return core.Outcome{Inconclusive: "bad case: handler index"}
			}
		}
		before := m.size()
		mustPanic := m.build(op, c.Handlers)
		panicked := r.realBuild(op)
		when := fmt.Sprintf("after build op %d (%s pos=%d handlers=%v)", bi, op.Op, op.Pos, op.H)
		if mustPanic != panicked {
			out.Violation = core.Viol("C03/build-admission", "%s: real call panicked=%v, expected %v", when, panicked, mustPanic)
			return
		}
		if mustPanic {
			cls.Add("build-refused")
		}
		if op.Op == "at" && op.Pos > 0 && op.Pos < before-2 && before >= 5 && !mustPanic {
			middle = true
			cls.Add("middle-insertion")
		}
		if len(op.H) > 1 {
			cls.Add("multi-handler-call")
		}
		if v := checkStructure(r, m, r.pool, when); v != nil {
			out.Violation = v
			return
		}
	}
	seen := map[int]int{}
	for _, mh := range m.hs {
		if mh.inst >= 0 {
			seen[mh.inst]++
			if seen[mh.inst] == 2 {
				cls.Add("repeated-instance")
			}
			n := 0
			for k := 0; k < 6; k++ {
				n += int(mh.spec.Ifaces >> uint(k) & 1)
			}
			cls.Add("subset-size:%d", n)
		}
	}
	// the decoder goes first, then the channel is served (the read loop delivers active)
	r.pl.AddFirst(&e3Decoder{rig: r})
	m.insertAfter(0, []e3MH{{inst: -1, spec: HSpec{Ifaces: 1 << kRead}}})
	r.pl.ServeChannel(r.ch)
	defer r.shutdown()
	if !r.settle() {
		out.Inconclusive = "read loop did not park after activation"
		return
	}
	m.invokeMethod(func() { m.inbound(kActive, 0, "") })
	if v := compareTraces(r, m, r.snapshot(), 0, "activation", "C03"); v != nil {
		out.Violation = v
		return
	}
	inboundLong, outboundLong := false, false
	for ei, ev := range c.Events {
		if m.closed {
			cls.Add("closed-by-unhandled-exception")
			break
		}
		from := len(m.trace)
		fromReal := len(r.snapshot())
		tag := fmt.Sprintf("%d", ei)
		what := fmt.Sprintf("event %d (%s %s)", ei, ev.Entry, kindNames[ev.Kind])
		cls.Add("entry:%s", ev.Entry)
		var escaped interface{}
		switch ev.Entry {
		case "fire":
			cls.Add("fire:%s", kindNames[ev.Kind])
			switch ev.Kind {
			case kRead:
				escaped = mock.Catch(func() { r.pl.FireChannelRead("r:" + tag) })
				m.inbound(kRead, 0, "r:"+tag)
			case kWrite:
				escaped = mock.Catch(func() { r.pl.FireChannelWrite([]byte("w:" + tag)) })
				m.outbound(m.size(), "w:"+tag)
			case kEvent:
				escaped = mock.Catch(func() { r.pl.FireChannelEvent("e:" + tag) })
				m.inbound(kEvent, 0, "e:"+tag)
			case kException:
				// plain errors and (every third event) a timeout net.Error: an exception forwarded past the last handler closes the channel whatever its kind
				var err error = fmt.Errorf("fired%s", tag)
				if ei%3 == 1 {
					err = &mock.NetErr{Msg: "fired" + tag, TO: true}
					cls.Add("fire:exception-timeout")
				}
				escaped = mock.Catch(func() { r.pl.FireChannelException(err) })
				m.inbound(kException, 0, "x:fired"+tag)
			}
		case "chwrite":
			escaped = mock.Catch(func() { _ = r.ch.Write([]byte("w:" + tag)) })
			m.chWrite("w:" + tag)
		case "chtrigger":
			escaped = mock.Catch(func() { r.ch.Trigger("e:" + tag) })
			m.chTrigger("e:" + tag)
		case "readloop":
			r.tr.Feed([]byte{byte(ei)})
			if !r.settle() {
				out.Inconclusive = "read loop did not park after a delivery"
				return
			}
			m.invokeMethod(func() { m.inbound(kRead, 0, fmt.Sprintf("r:%d", ei)) })
		case "ctxwrite", "ctxtrigger":
			pos := ev.At % m.size()
			ctx := r.pl.ContextAt(pos)
			if ctx == nil {
				out.Violation = core.Viol("C03/context-at", "ContextAt(%d) = nil", pos)
				return
			}
			what = fmt.Sprintf("event %d (%s at position %d)", ei, ev.Entry, pos)
			if ev.Entry == "ctxwrite" {
				escaped = mock.Catch(func() { ctx.Write([]byte("w:" + tag)) })
				m.ctxWrite(pos, "w:"+tag)
			} else {
				escaped = mock.Catch(func() { ctx.Trigger("e:" + tag) })
				m.ctxTrigger(pos, "e:"+tag)
			}
		}
		if escaped != nil {
			out.Inconclusive = fmt.Sprintf("%s: panic escaped although no handler panics in this property's cases: %v", what, escaped)
			return
		}
		real := r.snapshot()
		if v := compareTraces(r, m, real, imin(from, fromReal), what, "C03"); v != nil {
			out.Violation = v
			return
		}
		visited := 0
		for _, e := range m.trace[from:] {
			if e.H >= 0 {
				visited++
			}
		}
		if visited >= 2 {
			if ev.Entry == "chwrite" || ev.Entry == "ctxwrite" || (ev.Entry == "fire" && ev.Kind == kWrite) {
				outboundLong = true
			} else {
				inboundLong = true
			}
		}
		for _, lb := range c.Late {
			if lb.After != ei || m.closed {
				continue
			}
			op := lb.Op
			if op.Op == "at" {
				op.Pos = 1 + op.Pos%(m.size()-1) // after the decoder, up to the last position
			}
			for _, hi := range op.H {
				if hi < 0 || hi >= len(c.Handlers) {
					return core.Outcome{Inconclusive: "bad case: handler index"}
				}
			}
			mustPanic := m.build(op, c.Handlers)
			panicked := r.realBuild(op)
			when := fmt.Sprintf("late build after event %d (%s pos=%d handlers=%v)", ei, op.Op, op.Pos, op.H)
			if mustPanic != panicked {
				out.Violation = core.Viol("C03/build-admission", "%s: real call panicked=%v, expected %v", when, panicked, mustPanic)
				return
			}
			cls.Add("late-build")
			if v := checkStructure(r, m, r.pool, when); v != nil {
				out.Violation = v
				return
			}
		}
	}
	if m.closed {
		// the transport must have been closed and inactive delivered with the exception (checked via the traces)
		if !r.tr.IsClosed() {
			out.Violation = core.Viol("C03/unhandled-exception-did-not-close", "an exception was forwarded past the last handler but the transport is open")
			return
		}
	}
	users := 0
	for _, mh := range m.hs {
		if mh.inst >= 0 {
			users++
		}
	}
	out.NonTrivial = users >= 3 && middle && inboundLong && outboundLong
	if users >= 3 {
		cls.Add("pipeline>=3")
	}
	return
}

func TestC03(t *testing.T) {
	core.Main(t, core.Prop[E3Case]{
		ID:  "C03",
		Gen: genC03,
		Run: runC03,
	})
}
