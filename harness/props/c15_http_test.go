package props

import (
	"bufio"
	"bytes"
	"fmt"
	"io"
	"net/http"
	"sort"
	"strings"
	"sync"
	"testing"
	"time"

	netty "github.com/go-netty/go-netty"
	"github.com/go-netty/go-netty/codec/xhttp"
	"pgregory.net/rapid"

	"verif/harness/core"
	"verif/harness/mock"
)

// C15 — HTTP server codec: one well-formed response per request, in order.

type C15Req struct {
	Method   string      `json:"method"`
	Target   string      `json:"target"`
	Minor    int         `json:"minor"` // HTTP/1.<minor>
	Headers  [][2]string `json:"headers,omitempty"`
	Conn     string      `json:"conn,omitempty"`     // "" | close | keep-alive
	BodyKind string      `json:"bodykind,omitempty"` // "" | cl | chunked
	BodyLen  int         `json:"bodylen,omitempty"`
	Chunks   []int       `json:"chunks,omitempty"`
	// handler program for this request
	ReadBody string      `json:"readbody"` // none | part | all
	Mode     string      `json:"mode"`     // cl | chunked | none (close-delimited)
	Status   int         `json:"status"`   // 0 = never calls WriteHeader explicitly
	RespHdrs [][2]string `json:"resphdrs,omitempty"`
	Writes   []int       `json:"writes,omitempty"`
	FlushAt  []int       `json:"flushat,omitempty"` // call Flush after the i-th write (0 = before any write)
	TECase   bool        `json:"tecase,omitempty"`  // chunked mode: spell the header value "Chunked"
	HeadCL   int         `json:"headcl,omitempty"`  // HEAD / 304 in cl mode: the Content-Length announced for the body that is not sent
	// CloseBody: the handler calls r.Body.Close() when it is done with the request (the usual defer)
	CloseBody bool `json:"closebody,omitempty"`
	// WriteString: the handler sends its body parts with io.WriteString (which uses the writer's WriteString method if it has one)
	WriteString bool `json:"writestring,omitempty"`
	// Again: after the header is out the handler calls WriteHeader once more with this status (ignored by the contract of http.ResponseWriter)
	Again int `json:"again,omitempty"`
	// Trailer (chunked responses): the handler announces the trailer field X-Sum and sets it after writing the body
	Trailer bool `json:"trailer,omitempty"`
}

type C15Case struct {
	// Shared: the handler adapter (one xhttp.Handler value) also serves another connection, which was used first
	Shared bool     `json:"shared,omitempty"`
	Reqs   []C15Req `json:"reqs"`
	Cuts   []int    `json:"cuts,omitempty"`
	End    string   `json:"end"` // park | eof
	Queue  int      `json:"queue"`
}

var c15Methods = []string{"GET", "GET", "POST", "PUT", "DELETE", "OPTIONS", "HEAD"}
var c15HdrNames = []string{"X-Trace", "x-trace", "X-A", "Accept", "X-Long-Header-Name", "X-A"}
var c15Statuses = []int{0, 200, 201, 404, 500, 204, 304}

func genC15Req(t *rapid.T) C15Req {
	var r C15Req
	r.Method = rapid.SampledFrom(c15Methods).Draw(t, "method")
	r.Target = rapid.SampledFrom([]string{"/", "/a/b", "/q?x=1&y=%20z", "/evil", "http://example.com/abs?k=v", "/" + strings.Repeat("p", 300)}).Draw(t, "target")
	r.Minor = rapid.SampledFrom([]int{1, 1, 1, 0}).Draw(t, "minor")
	for i := rapid.IntRange(0, 4).Draw(t, "nh"); i > 0; i-- {
		r.Headers = append(r.Headers, [2]string{rapid.SampledFrom(c15HdrNames).Draw(t, "hn"), rapid.SampledFrom([]string{"v", "a b", "1", "x,y"}).Draw(t, "hv")})
	}
	r.Conn = rapid.SampledFrom([]string{"", "", "", "close", "keep-alive"}).Draw(t, "conn")
	if r.Method != "HEAD" {
		r.BodyKind = rapid.SampledFrom([]string{"", "", "cl", "cl", "chunked"}).Draw(t, "bodykind")
	}
	if r.Minor == 0 && r.BodyKind == "chunked" {
		r.BodyKind = "cl"
	}
	switch r.BodyKind {
	case "cl":
		r.BodyLen = rapid.SampledFrom([]int{0, 1, 26, 100, 2047, 2048, 2049, 5000}).Draw(t, "bodylen")
	case "chunked":
		r.Chunks = rapid.SliceOfN(rapid.SampledFrom([]int{1, 2, 10, 100, 1000}), 0, 4).Draw(t, "chunks")
		for _, c := range r.Chunks {
			r.BodyLen += c
		}
	}
	r.ReadBody = rapid.SampledFrom([]string{"none", "none", "part", "all"}).Draw(t, "readbody")
	r.CloseBody = rapid.IntRange(0, 3).Draw(t, "closebody") == 0
	r.Mode = rapid.SampledFrom([]string{"cl", "cl", "chunked", "none"}).Draw(t, "mode")
	if r.Minor == 0 && r.Mode == "chunked" {
		r.Mode = "cl" // HTTP/1.0 peers do not understand chunked
	}
	r.Status = rapid.SampledFrom(c15Statuses).Draw(t, "status")
	r.TECase = r.Mode == "chunked" && rapid.IntRange(0, 3).Draw(t, "tecase") == 0
	r.Trailer = r.Mode == "chunked" && rapid.IntRange(0, 3).Draw(t, "trailer") == 0
	for i := rapid.IntRange(0, 2).Draw(t, "nrh"); i > 0; i-- {
		r.RespHdrs = append(r.RespHdrs, [2]string{rapid.SampledFrom([]string{"X-Resp", "Content-Type", "X-Multi", "X-Multi"}).Draw(t, "rhn"), rapid.SampledFrom([]string{"a", "text/plain", "b c", "100%", "/f%20g?x=%2F"}).Draw(t, "rhv")})
	}
	bodiless := r.Method == "HEAD" || r.Status == 204 || r.Status == 304
	if !bodiless {
		r.Writes = rapid.SliceOfN(rapid.SampledFrom([]int{0, 1, 14, 100, 2047, 2048, 2049, 5000}), 0, 3).Draw(t, "writes")
	} else if rapid.Bool().Draw(t, "headbody") {
		// a handler that does not look at the method (or at its own status) writes a body to a HEAD request or with a
		// 204/304 status: no body may be sent
		r.Writes = rapid.SliceOfN(rapid.SampledFrom([]int{1, 14, 100, 2049}), 1, 2).Draw(t, "writes")
	} else if r.Mode == "chunked" {
		r.Mode = "cl"
	}
	if bodiless && len(r.Writes) == 0 && r.Mode == "cl" && r.Status != 204 {
		// a HEAD or 304 response announces the length of the representation it does not carry
		r.HeadCL = rapid.SampledFrom([]int{0, 0, 5, 1234}).Draw(t, "headcl")
	}
	if r.Mode != "chunked" || bodiless {
		r.Trailer = false
	}
	r.WriteString = rapid.IntRange(0, 3).Draw(t, "writestring") == 0
	if rapid.IntRange(0, 5).Draw(t, "again") == 0 {
		r.Again = rapid.SampledFrom([]int{200, 204, 304, 500, 100}).Draw(t, "againstatus")
	}
	for i := 0; i <= len(r.Writes); i++ {
		if rapid.IntRange(0, 4).Draw(t, "flush") == 0 {
			r.FlushAt = append(r.FlushAt, i)
		}
	}
	return r
}

func genC15(t *rapid.T) C15Case {
	var c C15Case
	if rapid.IntRange(0, 199).Draw(t, "long") == 57 {
		// a long-lived keep-alive connection: far more than a megabyte of ordinary requests
		n, body := 44, 32768
		if rapid.Bool().Draw(t, "manysmall") {
			n, body = 1300, 700
		}
		for i := 0; i < n; i++ {
			c.Reqs = append(c.Reqs, C15Req{Method: "POST", Target: "/a/b", Minor: 1, BodyKind: "cl", BodyLen: body, ReadBody: "all", Mode: "cl", Status: 200, Writes: []int{14}})
		}
		c.Cuts = rapid.SampledFrom([][]int{nil, {1460}, {4096}}).Draw(t, "longcuts")
		c.End = "park"
		c.Queue = rapid.SampledFrom([]int{0, 16}).Draw(t, "queue")
		return c
	}
	for i := rapid.IntRange(1, 5).Draw(t, "nreq"); i > 0; i-- {
		c.Reqs = append(c.Reqs, genC15Req(t))
	}
	switch rapid.IntRange(0, 3).Draw(t, "cutk") {
	case 0:
		c.Cuts = nil
	case 1:
		c.Cuts = []int{1}
	default:
		c.Cuts = rapid.SliceOfN(rapid.IntRange(1, 60), 1, 20).Draw(t, "cuts")
	}
	c.End = rapid.SampledFrom([]string{"park", "park", "eof"}).Draw(t, "end")
	c.Queue = rapid.SampledFrom([]int{0, 0, 16}).Draw(t, "queue")
	c.Shared = rapid.IntRange(0, 4).Draw(t, "shared") == 0
	return c
}

func c15Body(i, n int) []byte {
	b := make([]byte, n)
	for k := range b {
		b[k] = "GET /evil HTTP/1.1\r\nHost: x\r\n\r\n"[(k+i)%31]
	}
	return b
}

func (q C15Req) wire(i int) []byte {
	var b bytes.Buffer
	fmt.Fprintf(&b, "%s %s HTTP/1.%d\r\n", q.Method, q.Target, q.Minor)
	fmt.Fprintf(&b, "Host: example.com\r\n")
	for _, h := range q.Headers {
		fmt.Fprintf(&b, "%s: %s\r\n", h[0], h[1])
	}
	if q.Conn != "" {
		fmt.Fprintf(&b, "Connection: %s\r\n", q.Conn)
	}
	body := c15Body(i, q.BodyLen)
	switch q.BodyKind {
	case "cl":
		fmt.Fprintf(&b, "Content-Length: %d\r\n\r\n", q.BodyLen)
		b.Write(body)
	case "chunked":
		fmt.Fprintf(&b, "Transfer-Encoding: chunked\r\n\r\n")
		off := 0
		for _, c := range q.Chunks {
			fmt.Fprintf(&b, "%x\r\n", c)
			b.Write(body[off : off+c])
			b.WriteString("\r\n")
			off += c
		}
		b.WriteString("0\r\n\r\n")
	default:
		b.WriteString("\r\n")
	}
	return b.Bytes()
}

// asksClose: does the request ask to close the connection (HTTP semantics)?
func (q C15Req) asksClose() bool {
	if q.Minor == 0 {
		return q.Conn != "keep-alive"
	}
	return q.Conn == "close"
}

type c15Seen struct {
	method, uri, proto string
	headers            []string
	body               []byte
	bodyRead           string
}

func hdrMultiset(h http.Header, only func(string) bool) []string {
	var out []string
	for k, vs := range h {
		if only != nil && !only(k) {
			continue
		}
		for _, v := range vs {
			out = append(out, http.CanonicalHeaderKey(k)+": "+v)
		}
	}
	sort.Strings(out)
	return out
}

func runC15(c C15Case) (out core.Outcome) {
	cls := core.NewClassSet()
	defer func() { out.Classes = cls.List() }()
	var mu sync.Mutex
	var seen []c15Seen
	var handlerPanics []string
	handler := http.HandlerFunc(func(w http.ResponseWriter, r *http.Request) {
		if r.RequestURI == "/warmup-on-the-other-connection" {
			w.Header().Set("Content-Length", "2")
			_, _ = w.Write([]byte("ok"))
			return
		}
		mu.Lock()
		i := len(seen)
		s := c15Seen{method: r.Method, uri: r.RequestURI, proto: r.Proto, headers: hdrMultiset(r.Header, func(k string) bool { return strings.HasPrefix(k, "X-") || k == "Accept" })}
		seen = append(seen, s)
		mu.Unlock()
		if i >= len(c.Reqs) {
			return
		}
		q := c.Reqs[i]
		var body []byte
		switch q.ReadBody {
		case "all":
			body, _ = io.ReadAll(r.Body)
		case "part":
			buf := make([]byte, imax(1, q.BodyLen/2))
			n, _ := io.ReadFull(r.Body, buf)
			body = buf[:n]
		}
		if q.CloseBody {
			defer r.Body.Close()
		}
		mu.Lock()
		seen[i].body, seen[i].bodyRead = body, q.ReadBody
		mu.Unlock()
		total := 0
		for _, n := range q.Writes {
			total += n
		}
		for _, h := range q.RespHdrs {
			w.Header().Add(h[0], h[1])
		}
		switch q.Mode {
		case "cl":
			if q.HeadCL > 0 {
				total = q.HeadCL
			}
			w.Header().Set("Content-Length", fmt.Sprint(total))
		case "chunked":
			if q.TECase {
				w.Header().Set("Transfer-Encoding", "Chunked")
			} else {
				w.Header().Set("Transfer-Encoding", "chunked")
			}
			if q.Trailer {
				w.Header().Set("Trailer", "X-Sum")
			}
		}
		flushAt := map[int]bool{}
		for _, f := range q.FlushAt {
			flushAt[f] = true
		}
		if q.Status != 0 {
			w.WriteHeader(q.Status)
		}
		if flushAt[0] {
			w.(http.Flusher).Flush()
		}
		if q.Again != 0 && (q.Status != 0 || flushAt[0]) {
			w.WriteHeader(q.Again) // superfluous: the header is out
		}
		off := 0
		for k, n := range q.Writes {
			if q.WriteString {
				_, _ = io.WriteString(w, string(c15RespBody(i, off, n)))
			} else {
				_, _ = w.Write(c15RespBody(i, off, n))
			}
			off += n
			if k == 0 && q.Again != 0 {
				w.WriteHeader(q.Again) // superfluous: the header went out with the first write at the latest
			}
			if flushAt[k+1] {
				w.(http.Flusher).Flush()
			}
		}
		if q.Trailer {
			w.Header().Set("X-Sum", fmt.Sprintf("sum-%d-%d", i, off))
		}
	})
	var exs []error
	recorder := netty.ExceptionHandlerFunc(func(ctx netty.ExceptionContext, ex netty.Exception) {
		mu.Lock()
		exs = append(exs, ex)
		mu.Unlock()
		ctx.HandleException(ex)
	})
	tr := mock.NewTransport(nil, false, nil)
	var ex netty.Executor = &mock.InlineExec{}
	inline, _ := ex.(*mock.InlineExec)
	factory := netty.NewChannel()
	if c.Queue > 0 {
		factory = netty.NewAsyncWriteChannel(c.Queue, true)
		cls.Add("channel:queued")
	} else {
		cls.Add("channel:sync")
	}
	adapter := xhttp.Handler(handler)
	var otherTr *mock.Transport
	if c.Shared {
		// another connection served by the same handler value, used before this one and still open
		cls.Add("handler-shared-with-another-connection")
		otherTr = mock.NewTransport(nil, false, nil)
		opl := netty.NewPipeline()
		och := factory(2, bgCtx, opl, otherTr, &mock.InlineExec{})
		opl.AddLast(xhttp.ServerCodec(), adapter)
		opl.ServeChannel(och)
		otherTr.Feed([]byte("GET /warmup-on-the-other-connection HTTP/1.1\r\nHost: example.com\r\n\r\n"))
		if !otherTr.WaitReadParked(15 * time.Second) {
			out.Inconclusive = "other connection: read loop neither parked nor closed within 15 s"
			return
		}
		defer och.Close(nil)
	}
	pl := netty.NewPipeline()
	ch := factory(1, bgCtx, pl, tr, ex)
	pl.AddLast(xhttp.ServerCodec(), recorder, adapter)
	_ = handlerPanics
	pl.ServeChannel(ch)
	defer func() {
		ch.Close(nil)
		done := make(chan struct{})
		go func() { inline.WG.Wait(); close(done) }()
		select {
		case <-done:
		case <-time.After(10 * time.Second):
		}
	}()

	var stream []byte
	for i, q := range c.Reqs {
		stream = append(stream, q.wire(i)...)
	}
	pos := 0
	for k := 0; pos < len(stream); k++ {
		sz := len(stream)
		if len(c.Cuts) > 0 {
			sz = c.Cuts[imin(k, len(c.Cuts)-1)]
		}
		sz = imin(sz, len(stream)-pos)
		tr.Feed(stream[pos : pos+sz])
		pos += sz
	}
	if c.End == "eof" {
		tr.PeerClose()
	}
	if !tr.WaitReadParked(15 * time.Second) {
		out.Inconclusive = "read loop neither parked nor closed within 15 s"
		return
	}
	if tr.IsClosed() {
		done := make(chan struct{})
		go func() { inline.WG.Wait(); close(done) }()
		select {
		case <-done:
		case <-time.After(10 * time.Second):
			out.Inconclusive = "read loop did not end after close"
			return
		}
	}
	mu.Lock()
	defer mu.Unlock()

	// --- expected number of served requests: up to and including the first one after which the connection closes
	served := 0
	closes := false
	for _, q := range c.Reqs {
		served++
		if q.asksClose() || q.Mode == "none" {
			closes = true
			break
		}
	}
	if c.End == "eof" && !closes {
		closes = true // the peer's EOF ends the connection after the last request
	}
	multi := len(c.Reqs) >= 2
	for i, q := range c.Reqs[:served] {
		if q.BodyLen > 0 && q.ReadBody != "all" && i+1 < served {
			cls.Add("unread-body-then-request")
		}
		if len(q.FlushAt) > 0 {
			cls.Add("handler-flush")
		}
		cls.Add("resp:%s", q.Mode)
		if (q.Method == "HEAD" || q.Status == 204 || q.Status == 304) && len(q.Writes) > 0 {
			cls.Add("handler-writes-body-where-none-is-allowed")
		}
		if q.Again != 0 {
			cls.Add("superfluous-writeheader")
		}
		if q.WriteString && len(q.Writes) > 0 {
			cls.Add("body-via-io.WriteString:%s", q.Mode)
		}
		if q.CloseBody && i+1 < served {
			cls.Add("handler-closes-body-then-request")
		}
		if q.HeadCL > 0 && i+1 < served {
			cls.Add("bodiless-response-with-content-length-then-request")
		}
		if q.Minor == 0 {
			cls.Add("http/1.0")
		}
		if q.BodyKind == "chunked" {
			cls.Add("req-chunked")
		}
	}
	if len(c.Cuts) > 0 {
		cls.Add("fragmented")
	}
	if total := len(stream); total > 1<<20 {
		cls.Add("connection-carried-more-than-1MiB")
	}
	out.NonTrivial = multi || cls.Has("handler-flush") || cls.Has("resp:chunked")
	for _, q := range c.Reqs {
		if q.BodyLen > 0 {
			out.NonTrivial = true
		}
	}

	// exceptions: only the end-of-stream error after the last request is expected (peer EOF)
	for _, e := range exs {
		if c.End == "eof" && (e == io.EOF || strings.Contains(e.Error(), "EOF")) {
			continue
		}
		sig := "C15/exception-on-valid-input"
		if strings.Contains(e.Error(), "nil pointer") {
			sig = "C15/flush-twice-nil-writer"
		}
		out.Violation = core.Viol(sig, "exception raised for a valid request sequence: %v (requests seen by the handler: %d, expected %d)", e, len(seen), served)
		return
	}
	if len(seen) != served {
		sig := "C15/handler-invocation-count"
		if len(seen) > served {
			for _, s := range seen[served:] {
				if s.uri == "/evil" {
					sig = "C15/unread-body-parsed-as-request"
				}
			}
		}
		for i := range seen {
			if i < served && seen[i].uri != c.Reqs[i].Target {
				sig = "C15/unread-body-parsed-as-request"
			}
		}
		out.Violation = core.Viol(sig, "the handler was invoked %d times, expected %d (seen %v)", len(seen), served, seenBrief(seen))
		return
	}
	for i := 0; i < served; i++ {
		q, s := c.Reqs[i], seen[i]
		wantHdr := http.Header{}
		for _, h := range q.Headers {
			wantHdr.Add(h[0], h[1])
		}
		if s.method != q.Method || s.uri != q.Target || s.proto != fmt.Sprintf("HTTP/1.%d", q.Minor) {
			sig := "C15/request-mismatch"
			if s.uri == "/evil" && q.Target != "/evil" {
				sig = "C15/unread-body-parsed-as-request"
			}
			out.Violation = core.Viol(sig, "request %d: handler saw %s %s %s, sent %s %s HTTP/1.%d", i, s.method, s.uri, s.proto, q.Method, q.Target, q.Minor)
			return
		}
		if got, want := strings.Join(s.headers, "|"), strings.Join(hdrMultiset(wantHdr, nil), "|"); got != want {
			out.Violation = core.Viol("C15/request-headers", "request %d: handler saw headers [%s], sent [%s]", i, got, want)
			return
		}
		full := c15Body(i, q.BodyLen)
		switch q.ReadBody {
		case "all":
			if !bytes.Equal(s.body, full) {
				out.Violation = core.Viol("C15/request-body", "request %d: handler read %d body bytes, the request carried %d (first difference at %d)", i, len(s.body), len(full), firstDiff(s.body, full))
				return
			}
		case "part":
			if !bytes.HasPrefix(full, s.body) || (q.BodyLen >= 2 && len(s.body) != q.BodyLen/2) {
				out.Violation = core.Viol("C15/request-body", "request %d: handler's partial read returned %d bytes that are not the first half of the body (%d)", i, len(s.body), q.BodyLen)
				return
			}
		}
	}

	if otherTr != nil {
		ob, _ := otherTr.Accepted()
		if n := bytes.Count(ob, []byte("HTTP/1.")); n != 1 || !bytes.HasSuffix(ob, []byte("\r\n\r\nok")) {
			out.Violation = core.Viol("C15/response-on-wrong-connection", "the other connection served by the same handler value received %d bytes holding %d responses; it asked for one (%.120q)", len(ob), n, ob)
			return
		}
	}
	// --- the wire
	wireBytes, flushed := tr.Accepted()
	if flushed != len(wireBytes) {
		out.Violation = core.Viol("C15/unflushed-response-bytes", "%d response bytes were never flushed", len(wireBytes)-flushed)
		return
	}
	br := bufio.NewReader(bytes.NewReader(wireBytes))
	for i := 0; i < served; i++ {
		q := c.Reqs[i]
		req, _ := http.NewRequest(q.Method, "http://example.com/", nil)
		resp, err := http.ReadResponse(br, req)
		if err != nil {
			out.Violation = core.Viol("C15/response-unparseable", "response %d cannot be parsed by net/http: %v (wire %d bytes: %.120q)", i, err, len(wireBytes), wireBytes)
			return
		}
		body, berr := io.ReadAll(resp.Body)
		resp.Body.Close()
		wantStatus := q.Status
		if wantStatus == 0 {
			wantStatus = 200
		}
		var wantBody []byte
		off := 0
		for _, n := range q.Writes {
			wantBody = append(wantBody, c15RespBody(i, off, n)...)
			off += n
		}
		if q.Method == "HEAD" || q.Status == 204 || q.Status == 304 {
			wantBody = nil
		}
		if berr != nil {
			out.Violation = core.Viol("C15/response-body-unreadable", "response %d: reading the body failed: %v", i, berr)
			return
		}
		if resp.StatusCode != wantStatus {
			out.Violation = core.Viol("C15/response-status", "response %d: status %d, handler wrote %d", i, resp.StatusCode, wantStatus)
			return
		}
		if resp.ProtoMajor != 1 || resp.ProtoMinor != q.Minor {
			out.Violation = core.Viol("C15/response-version", "response %d: %s for an HTTP/1.%d request", i, resp.Proto, q.Minor)
			return
		}
		if q.Trailer {
			total := 0
			for _, n := range q.Writes {
				total += n
			}
			if got, want := resp.Trailer.Get("X-Sum"), fmt.Sprintf("sum-%d-%d", i, total); got != want {
				out.Violation = core.Viol("C15/response-trailer", "response %d: trailer X-Sum read back as %q, the handler set %q", i, got, want)
				return
			}
			cls.Add("resp:chunked-with-trailer")
		}
		if !bytes.Equal(body, wantBody) {
			out.Violation = core.Viol("C15/response-body", "response %d (%s): body has %d bytes, handler wrote %d (first difference at %d)", i, q.Mode, len(body), len(wantBody), firstDiff(body, wantBody))
			return
		}
		wantHdr := http.Header{}
		for _, h := range q.RespHdrs {
			wantHdr.Add(h[0], h[1])
		}
		custom := func(k string) bool { return k == "X-Resp" || k == "X-Multi" || k == "Content-Type" }
		if got, want := strings.Join(hdrMultiset(resp.Header, custom), "|"), strings.Join(hdrMultiset(wantHdr, nil), "|"); got != want {
			out.Violation = core.Viol("C15/response-headers", "response %d: headers [%s], handler set [%s]", i, got, want)
			return
		}
		if resp.Header.Get("Server") == "" {
			out.Violation = core.Viol("C15/response-headers", "response %d: Server header missing", i)
			return
		}
	}
	if rest, _ := io.ReadAll(br); len(rest) > 0 {
		out.Violation = core.Viol("C15/extra-bytes-on-wire", "%d bytes follow the last response: %.80q", len(rest), rest)
		return
	}
	// --- connection state
	if closes && c.End != "eof" || (closes && c.End == "eof") {
		if !tr.IsClosed() {
			out.Violation = core.Viol("C15/connection-not-closed", "the connection should be closed after response %d (request asked to close or the response is not self-delimiting) but it is open", served-1)
			return
		}
		// close after the last response byte
		evs := tr.EventsCopy()
		closeSeq, lastWrite := 0, 0
		for _, ev := range evs {
			if ev.Kind == "close" && !ev.Rejected && closeSeq == 0 {
				closeSeq = ev.Seq
			}
			if (ev.Kind == "write" || ev.Kind == "writev") && ev.End > ev.Start {
				lastWrite = ev.Seq
			}
		}
		if closeSeq != 0 && lastWrite > closeSeq {
			out.Violation = core.Viol("C15/closed-before-response-flushed", "the transport was closed before the last response bytes were written")
			return
		}
		cls.Add("connection-closed")
	} else if tr.IsClosed() {
		out.Violation = core.Viol("C15/connection-closed-early", "every request allowed keep-alive and every response was self-delimiting, but the connection was closed after %d responses", served)
		return
	} else {
		cls.Add("connection-kept-open")
	}
	return
}

func c15RespBody(i, off, n int) []byte {
	b := make([]byte, n)
	for k := range b {
		b[k] = byte('a' + (i*7+off+k)%26)
	}
	return b
}

func seenBrief(s []c15Seen) string {
	var out []string
	for _, x := range s {
		out = append(out, x.method+" "+x.uri)
	}
	return strings.Join(out, ", ")
}

func TestC15(t *testing.T) {
	core.Main(t, core.Prop[C15Case]{
		ID:  "C15",
		Gen: genC15,
		Run: runC15,
	})
}
