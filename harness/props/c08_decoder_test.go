package props

import (
	"bytes"
	"encoding/binary"
	"errors"
	"fmt"
	"io"
	"runtime"
	"sync"
	"testing"
	"time"

	netty "github.com/go-netty/go-netty"
	"github.com/go-netty/go-netty/codec/frame"
	"github.com/go-netty/go-netty/utils"
	"pgregory.net/rapid"

	"verif/harness/core"
	"verif/harness/mock"
	"verif/harness/wire"
)

// C08 — frame decoders never deliver a truncated, oversized or phantom frame.

type C08Case struct {
	Codec   wire.Codec `json:"codec"`
	Stream  []byte     `json:"stream"`
	Pieces  []string   `json:"pieces"` // how the generator built the stream (informational)
	Cuts    []int      `json:"cuts"`
	End     string     `json:"end"` // eof | err | eofdata (last bytes returned together with io.EOF) | park (channel layer only)
	Channel bool       `json:"channel"`
	Consume string     `json:"consume,omitempty"` // how the consumer reads a message: "" readall | copy | tobytes
	// Packet: the inbound messages are []byte packets (one per cut: what a packet transport or a chunk-delivering handler
	// such as the variable-length codec hands on), each inside a larger reused buffer that still holds older bytes
	Packet bool `json:"packet,omitempty"`
	// Nested: the stream is the content of one frame of an outer varint-length codec (an envelope), followed by other
	// bytes; the decoder under test sits behind that outer decoder and must not look past the envelope
	Nested bool `json:"nested,omitempty"`
	Zero   int  `json:"zero,omitempty"` // every Zero-th transport read returns (0, nil) (not for the varlen decoder, which hands an empty read on)
}

func genC08(t *rapid.T) C08Case {
	if rapid.IntRange(0, 9).Draw(t, "varlen") == 3 {
		return genC08VarLen(t)
	}
	c := C08Case{Codec: genCodec(t, true)}
	cd := &c.Codec
	cd.Max = rapid.SampledFrom([]int{1, 2, 5, 8, 16, 17, 64, 255, 256, 257, 1024, 70000}).Draw(t, "max")
	if cd.Kind == "lf" && cd.Max < cd.Off+cd.Width {
		cd.Max = cd.Off + cd.Width + rapid.IntRange(0, 8).Draw(t, "maxpad")
	}
	if cd.Kind == "prep" && cd.Max < cd.Width {
		cd.Max = cd.Width + rapid.IntRange(0, 8).Draw(t, "maxpad")
	}
	hl := 0
	switch cd.Kind {
	case "lf":
		hl = cd.Off + cd.Width
	case "prep":
		hl = cd.Width
	}
	randBytes := func(n int, label string) []byte {
		return rapid.SliceOfN(rapid.Byte(), n, n).Draw(t, label)
	}
	np := rapid.IntRange(1, 4).Draw(t, "npieces")
	for i := 0; i < np; i++ {
		kind := rapid.SampledFrom([]string{"valid", "valid", "valid", "over", "hostile", "hostile", "random"}).Draw(t, "piece")
		switch kind {
		case "valid", "over":
			// largest body that still fits max
			room := cd.Max
			switch cd.Kind {
			case "lf", "prep":
				room = cd.Max - hl
			case "delim":
				room = cd.Max - len(cd.Delim)
			case "fixed":
				room = cd.Fixed
			}
			var n int
			if kind == "over" && cd.Kind != "fixed" {
				n = room + rapid.IntRange(1, 3).Draw(t, "overby")
			} else {
				if room < 0 {
					continue
				}
				n = rapid.IntRange(0, imin(room, 300)).Draw(t, "vlen")
				if rapid.IntRange(0, 3).Draw(t, "atmax") == 0 && room <= 70000 {
					n = room
				}
			}
			if cd.Kind == "fixed" {
				n = cd.Fixed
			}
			if cd.Kind == "lf" && n < imax(0, cd.Adj) {
				n = imax(0, cd.Adj)
			}
			if n < 0 || n > 80000 {
				continue
			}
			payload, _ := payloadBytes(*cd, n, rapid.IntRange(0, 50).Draw(t, "pseed"))
			b, err := cd.RefEncode(payload, randBytes(cd.Off, "prefix"))
			if err != nil {
				continue
			}
			c.Stream = append(c.Stream, b...)
			c.Pieces = append(c.Pieces, fmt.Sprintf("%s:%d", kind, n))
		case "hostile":
			switch cd.Kind {
			case "lf", "prep":
				off := hl - cd.Width
				capBits := uint(8 * cd.Width)
				var vals []uint64
				vals = append(vals, 0, 1, uint64(cd.Max), uint64(cd.Max)+1, uint64(imax(0, cd.Max-hl)), uint64(imax(0, cd.Max-hl))+1)
				if capBits < 64 {
					vals = append(vals, 1<<capBits-1, 1<<(capBits-1))
				} else {
					vals = append(vals, 1<<63, 1<<63-1, ^uint64(0), ^uint64(0)-8)
				}
				if da := cd.DecAdj(); da < 0 {
					vals = append(vals, uint64(-da-1), uint64(-da))
				}
				if cd.Strip > 0 {
					vals = append(vals, uint64(imax(0, cd.Strip-hl-cd.DecAdj()-1)))
				}
				v := rapid.SampledFrom(vals).Draw(t, "hval")
				b := randBytes(off, "hprefix")
				lb := make([]byte, cd.Width)
				switch cd.Width {
				case 1:
					lb[0] = byte(v)
				case 2:
					if cd.Little {
						binary.LittleEndian.PutUint16(lb, uint16(v))
					} else {
						binary.BigEndian.PutUint16(lb, uint16(v))
					}
				case 4:
					if cd.Little {
						binary.LittleEndian.PutUint32(lb, uint32(v))
					} else {
						binary.BigEndian.PutUint32(lb, uint32(v))
					}
				case 8:
					if cd.Little {
						binary.LittleEndian.PutUint64(lb, v)
					} else {
						binary.BigEndian.PutUint64(lb, v)
					}
				}
				b = append(b, lb...)
				b = append(b, randBytes(rapid.IntRange(0, 20).Draw(t, "hbody"), "hbodyb")...)
				c.Stream = append(c.Stream, b...)
				c.Pieces = append(c.Pieces, fmt.Sprintf("hostile-length:%d", v))
			case "varint":
				k := rapid.IntRange(0, 4).Draw(t, "vk")
				var b []byte
				switch k {
				case 0:
					b = bytes.Repeat([]byte{0x80}, rapid.IntRange(9, 12).Draw(t, "cont"))
					b = append(b, 0x01)
				case 1:
					b = bytes.Repeat([]byte{0xff}, rapid.IntRange(1, 11).Draw(t, "ff"))
					b = append(b, 0x7f)
				case 2:
					var h [binary.MaxVarintLen64]byte
					n := binary.PutUvarint(h[:], uint64(cd.Max)+uint64(rapid.IntRange(1, 3).Draw(t, "vover")))
					b = h[:n]
				case 3:
					b = []byte{0xff, 0xff, 0xff, 0xff, 0xff, 0xff, 0xff, 0xff, 0xff, 0x02}
				default:
					var h [binary.MaxVarintLen64]byte
					n := binary.PutUvarint(h[:], 1<<63)
					b = h[:n]
				}
				b = append(b, randBytes(rapid.IntRange(0, 20).Draw(t, "hbody"), "hbodyb")...)
				c.Stream = append(c.Stream, b...)
				c.Pieces = append(c.Pieces, fmt.Sprintf("hostile-varint:%d", k))
			case "delim":
				n := cd.Max + rapid.IntRange(-1, 3).Draw(t, "nd")
				if n < 1 {
					n = 1
				}
				if n > 80000 {
					n = 300
				}
				b := bytes.Repeat([]byte{'z'}, n)
				if rapid.Bool().Draw(t, "partial") && len(cd.Delim) > 1 {
					copy(b[len(b)-imin(len(b), len(cd.Delim)-1):], cd.Delim[:len(cd.Delim)-1])
				}
				c.Stream = append(c.Stream, b...)
				c.Pieces = append(c.Pieces, fmt.Sprintf("no-delimiter:%d", n))
			default:
				c.Stream = append(c.Stream, randBytes(rapid.IntRange(1, 10).Draw(t, "rn"), "rb")...)
				c.Pieces = append(c.Pieces, "random")
			}
		default:
			c.Stream = append(c.Stream, randBytes(rapid.IntRange(1, 30).Draw(t, "rn"), "rb")...)
			c.Pieces = append(c.Pieces, "random")
		}
	}
	// where does the stream end?
	if len(c.Stream) > 0 && rapid.IntRange(0, 2).Draw(t, "trunc") != 0 {
		p := rapid.IntRange(0, len(c.Stream)).Draw(t, "cutat")
		if rapid.Bool().Draw(t, "neartail") {
			p = len(c.Stream) - rapid.IntRange(0, imin(len(c.Stream), 24)).Draw(t, "tailcut")
		}
		c.Stream = c.Stream[:p]
		c.Pieces = append(c.Pieces, fmt.Sprintf("ends-at:%d", p))
	}
	switch rapid.IntRange(0, 3).Draw(t, "cutk") {
	case 0:
		c.Cuts = []int{1}
	case 1:
		c.Cuts = nil
	default:
		c.Cuts = rapid.SliceOfN(rapid.IntRange(1, 40), 1, 20).Draw(t, "cuts")
	}
	c.Channel = rapid.IntRange(0, 19).Draw(t, "layer") == 0
	c.Consume = rapid.SampledFrom([]string{"", "", "copy", "tobytes"}).Draw(t, "consume")
	if !c.Channel {
		c.Zero = rapid.SampledFrom([]int{0, 0, 0, 2, 3, 7}).Draw(t, "zero")
		if rapid.IntRange(0, 6).Draw(t, "nested") == 0 && len(c.Stream) > 0 && len(c.Stream) < 60000 {
			c.Nested, c.Zero = true, 0
		} else if rapid.IntRange(0, 5).Draw(t, "packet") == 0 {
			c.Packet, c.Zero = true, 0
			if len(c.Cuts) == 0 {
				c.Cuts = []int{imax(1, len(c.Stream)/2)}
			}
		}
	}
	if c.Channel {
		c.End = rapid.SampledFrom([]string{"eof", "err", "park"}).Draw(t, "end")
	} else {
		c.End = rapid.SampledFrom([]string{"eof", "eof", "err", "eofdata"}).Draw(t, "end")
	}
	return c
}

// genC08VarLen: the "maximum received length" decoder: arbitrary bytes, arbitrary read sizes around the maximum.
func genC08VarLen(t *rapid.T) C08Case {
	c := C08Case{Codec: wire.Codec{Kind: "varlen"}}
	c.Codec.Max = rapid.SampledFrom([]int{1, 2, 7, 16, 100, 255, 1000, 1023, 1024, 1025, 3000, 4096}).Draw(t, "max")
	n := rapid.SampledFrom([]int{0, 1, c.Codec.Max - 1, c.Codec.Max, c.Codec.Max + 1, 2*c.Codec.Max + 3, 5000}).Draw(t, "len")
	if n < 0 {
		n = 0
	}
	seed := rapid.IntRange(0, 255).Draw(t, "seed")
	c.Stream = make([]byte, n)
	for i := range c.Stream {
		c.Stream[i] = byte(seed + i*7)
	}
	c.Pieces = []string{fmt.Sprintf("raw:%d", n)}
	switch rapid.IntRange(0, 3).Draw(t, "cutk") {
	case 0:
		c.Cuts = nil // everything the source has in one read
	case 1:
		c.Cuts = []int{c.Codec.Max + rapid.IntRange(1, 2000).Draw(t, "over")}
	default:
		c.Cuts = rapid.SliceOfN(rapid.SampledFrom([]int{1, 2, 40, c.Codec.Max - 1, c.Codec.Max, c.Codec.Max + 1, 2 * c.Codec.Max, 1024, 2048}), 1, 8).Draw(t, "cuts")
		for i := range c.Cuts {
			if c.Cuts[i] < 1 {
				c.Cuts[i] = 1
			}
		}
	}
	c.End = rapid.SampledFrom([]string{"eof", "err", "eofdata"}).Draw(t, "end")
	return c
}

// runC08VarLen: every delivered frame holds at most Max bytes, and the frames are exactly the bytes of the
// stream in order (nothing invented, nothing beyond what was read); the end of the stream is raised, never delivered.
func runC08VarLen(c C08Case, dec netty.InboundHandler, cls *core.ClassSet) (out core.Outcome) {
	cd := c.Codec
	fr := &wire.Fragmenter{Data: c.Stream, Cuts: c.Cuts, End: c.End}
	pos := 0
	for call := 0; call < len(c.Stream)+3; call++ {
		pulledBefore, endBefore := fr.Pulled, fr.EndHits
		var deliveries [][]byte
		ctx := &mock.Ctx{OnRead: func(m netty.Message) {
			d := consumeMessage(m)
			deliveries = append(deliveries, d.data)
		}}
		pv := mock.Catch(func() { dec.HandleRead(ctx, fr) })
		if re, ok := pv.(runtime.Error); ok {
			out.Violation = core.Viol("C08/runtime-fault:varlen", "decoder failed with a runtime error: %v", re)
			return
		}
		pulled := fr.Pulled - pulledBefore
		if pulled > cd.Max {
			cls.Add("varlen:read-larger-than-max")
			out.Violation = core.Viol("C08/unbounded-read:varlen", "decoder took %d bytes from the source in one go; the configured maximum is %d", pulled, cd.Max)
			return
		}
		if len(deliveries) > 1 {
			out.Violation = core.Viol("C08/multiple-deliveries:varlen", "%d messages delivered by one HandleRead", len(deliveries))
			return
		}
		if len(deliveries) == 1 {
			d := deliveries[0]
			switch {
			case len(d) > cd.Max:
				out.Violation = core.Viol("C08/oversized-frame-delivered:varlen", "a frame of %d bytes was delivered, the configured maximum is %d", len(d), cd.Max)
				return
			case len(d) == 0 && fr.EndHits > endBefore:
				out.Violation = core.Viol("C08/end-of-stream-delivered:varlen", "an empty message was delivered for the end of the stream")
				return
			case len(d) != pulled || !bytes.Equal(d, c.Stream[pos:pos+pulled]):
				out.Violation = core.Viol("C08/wrong-frame-delivered:varlen", "delivered %d bytes (% x...) but this call took %d bytes (% x...) from the source at offset %d", len(d), d[:imin(8, len(d))], pulled, c.Stream[pos:pos+imin(8, pulled)], pos)
				return
			}
			if len(d) == cd.Max {
				cls.Add("frame-at-max")
				out.NonTrivial = true
			}
			pos += pulled
			cls.Add("delivered-ok")
			if pv != nil {
				return
			}
			continue
		}
		if pv != nil {
			cls.Add("raised:end")
			if pulled > 0 {
				cls.Add("varlen:data-with-error-dropped")
			}
			return
		}
		if pulled == 0 {
			out.Violation = core.Viol("C08/no-progress:varlen", "HandleRead returned without consuming input, delivering or raising (pos %d of %d)", pos, len(c.Stream))
			return
		}
		cls.Add("silent-consume")
		return
	}
	return
}

type c08Consumed struct {
	data []byte
	err  error // terminal error of reading the message (nil = clean end)
}

// consumeMessage reads a delivered message to its end the way real consumers do:
// how = readall (Read calls), copy (io.Copy: uses WriterTo when offered), tobytes (utils.ToBytes, what codecs use).
func consumeMessageAs(m netty.Message, how string) c08Consumed {
	switch how {
	case "copy":
		if r, ok := m.(io.Reader); ok {
			var buf bytes.Buffer
			_, err := io.Copy(&buf, r)
			return c08Consumed{data: buf.Bytes(), err: err}
		}
	case "tobytes":
		b, err := utils.ToBytes(m)
		return c08Consumed{data: append([]byte{}, b...), err: err}
	}
	return consumeMessage(m)
}

func consumeMessage(m netty.Message) c08Consumed {
	switch v := m.(type) {
	case []byte:
		return c08Consumed{data: append([]byte{}, v...)}
	case io.Reader:
		b, err := io.ReadAll(v)
		return c08Consumed{data: b, err: err}
	}
	b, err := wire.Flatten(m)
	return c08Consumed{data: b, err: err}
}

// judgeDelivery compares one delivered message with the reference step.
func judgeDelivery(cd wire.Codec, ref wire.Step, streamEnded bool, got c08Consumed) *core.Violation {
	k := cd.Kind
	switch ref.Status {
	case wire.OK:
		if !bytes.Equal(got.data, ref.Msg) {
			return core.Viol("C08/wrong-frame-delivered:"+k, "delivered %d bytes, the complete frame has %d bytes", len(got.data), len(ref.Msg))
		}
		return nil
	case wire.Truncated:
		if streamEnded {
			if len(got.data) == 0 && k == "fixed" {
				return core.Viol("C08/fixed-length-delivers-after-eof", "message of %d bytes delivered although the stream had ended (%s)", len(got.data), ref.Why)
			}
			return core.Viol("C08/lazy-body-truncated-at-eof:"+k, "message of %d bytes delivered as complete although the stream ended inside the frame (%s)", len(got.data), ref.Why)
		}
		return core.Viol("C08/truncated-frame-delivered:"+k, "message of %d bytes delivered although the frame is incomplete (%s)", len(got.data), ref.Why)
	default:
		return core.Viol("C08/inadmissible-frame-delivered:"+k, "message of %d bytes delivered although the frame must be rejected (%s)", len(got.data), ref.Why)
	}
}

func runC08(c C08Case) (out core.Outcome) {
	cls := core.NewClassSet()
	defer func() { out.Classes = cls.List() }()
	cd := c.Codec
	cls.Add("codec:%s", cd.Kind)
	var dec netty.InboundHandler
	if p := mock.Catch(func() { dec, _ = cd.Build() }); p != nil {
		return core.Outcome{Inconclusive: fmt.Sprintf("bad case: constructor rejected configuration: %v", p)}
	}
	if cd.Kind == "varlen" {
		cls.Add("end:%s", c.End)
		for _, k := range c.Cuts {
			if k > cd.Max {
				cls.Add("varlen:source-offers-more-than-max")
				out.NonTrivial = true
			}
		}
		if len(c.Cuts) == 0 && len(c.Stream) > cd.Max {
			cls.Add("varlen:source-offers-more-than-max")
			out.NonTrivial = true
		}
		o := runC08VarLen(c, dec, cls)
		o.NonTrivial = o.NonTrivial || out.NonTrivial
		return o
	}
	// classify the stream with the reference decoder
	{
		pos, okFrames := 0, 0
		for pos <= len(c.Stream) {
			st := cd.RefDecode(c.Stream[pos:], false)
			if st.Status != wire.OK {
				cls.Add("first-bad:%s:%s", st.Status, st.Why)
				if pos == len(c.Stream) {
					cls.Add("ends-at-frame-boundary")
				}
				if okFrames > 0 {
					out.NonTrivial = true
					cls.Add("bad-after-valid")
				}
				break
			}
			okFrames++
			pos += st.Consumed
			if st.Consumed == 0 {
				break
			}
		}
	}
	cls.Add("end:%s", c.End)
	cls.Add("consume:%s", c.Consume)
	if c.Channel {
		return runC08Channel(c, cd, dec, cls, out)
	}
	if c.End == "park" {
		return core.Outcome{Inconclusive: "bad case: park needs the channel layer"}
	}

	if c.Nested {
		return runC08Nested(c, dec, cls, out)
	}
	if c.Packet {
		return runC08Packets(c, dec, cls, out)
	}
	fr := &wire.Fragmenter{Data: c.Stream, Cuts: c.Cuts, End: c.End, Zero: c.Zero}
	if c.Zero > 0 {
		cls.Add("empty-reads")
	}
	pos := 0
	for call := 0; call < len(c.Stream)+3; call++ {
		ref := cd.RefDecode(c.Stream[pos:], false)
		before, pulledBefore, endBefore := fr.Pos(), fr.Pulled, fr.EndHits
		var deliveries []c08Consumed
		ctx := &mock.Ctx{OnRead: func(m netty.Message) { deliveries = append(deliveries, consumeMessageAs(m, c.Consume)) }}
		pv := mock.Catch(func() { dec.HandleRead(ctx, fr) })
		if fr.EndHits-endBefore > 4 {
			out.Violation = core.Viol("C08/reads-dead-stream:"+cd.Kind, "one HandleRead call read the ended stream %d times", fr.EndHits-endBefore)
			return
		}
		if pulled := fr.Pulled - pulledBefore; pulled > ref.MaxPull && ref.MaxPull > 0 {
			out.Violation = core.Viol("C08/unbounded-read:"+cd.Kind, "decoder took %d bytes from the source for one frame; bound for this frame is %d (%s %s)", pulled, ref.MaxPull, ref.Status, ref.Why)
			return
		}
		if len(deliveries) > 1 {
			out.Violation = core.Viol("C08/multiple-deliveries:"+cd.Kind, "%d messages delivered by one HandleRead", len(deliveries))
			return
		}
		if len(deliveries) == 1 {
			d := deliveries[0]
			if d.err != nil && !errors.Is(d.err, io.EOF) {
				// the consumer's read failed: not delivered as a message (a real consumer raises)
				cls.Add("consumer-read-error")
				return
			}
			if v := judgeDelivery(cd, ref, fr.Ended(), d); v != nil {
				out.Violation = v
				return
			}
			if pv != nil {
				// delivered a correct frame and raised afterwards: allowed by this property
				return
			}
			if fr.Pos() != pos+ref.Consumed {
				out.Violation = core.Viol("C08/frame-boundary:"+cd.Kind, "decoder consumed up to %d, frame ends at %d", fr.Pos(), pos+ref.Consumed)
				return
			}
			pos += ref.Consumed
			cls.Add("delivered-ok")
			continue
		}
		if pv != nil {
			if re, ok := pv.(runtime.Error); ok {
				out.Violation = core.Viol("C08/runtime-fault:"+cd.Kind, "decoder failed with a runtime error: %v", re)
				return
			}
			cls.Add("raised:%s", ref.Status)
			return
		}
		// neither delivered nor raised
		if fr.Pos() == before {
			out.Violation = core.Viol("C08/no-progress:"+cd.Kind, "HandleRead returned without consuming input, delivering or raising (pos %d of %d)", before, len(c.Stream))
			return
		}
		cls.Add("silent-consume")
		return
	}
	return
}

// runC08Nested: two frame codecs stacked. The outer varint-length decoder delivers the envelope (c.Stream) as one
// message; the decoder under test reads its first frame from that message. For it the envelope is the whole stream:
// a frame that needs more than the envelope holds is truncated, whatever follows the envelope on the connection.
func runC08Nested(c C08Case, dec netty.InboundHandler, cls *core.ClassSet, out core.Outcome) core.Outcome {
	cd := c.Codec
	cls.Add("nested-behind-varint-envelope")
	outer := frame.VarintLengthFieldCodec(len(c.Stream) + 16)
	wire1 := binary.AppendUvarint(nil, uint64(len(c.Stream)))
	wire1 = append(wire1, c.Stream...)
	// what follows the envelope on the connection: bytes that would complete an over-long inner frame nicely
	wire1 = append(wire1, bytes.Repeat([]byte{3, 'X', 'Y', 'Z', 0, 0, 0, 1}, 40)...)
	fr := &wire.Fragmenter{Data: wire1, Cuts: c.Cuts, End: "eof"}
	ref := cd.RefDecode(c.Stream, false)
	var deliveries []c08Consumed
	inner := &mock.Ctx{OnRead: func(m netty.Message) { deliveries = append(deliveries, consumeMessageAs(m, c.Consume)) }}
	var innerPanic interface{}
	outerCtx := &mock.Ctx{OnRead: func(m netty.Message) {
		innerPanic = mock.Catch(func() { dec.HandleRead(inner, m) })
	}}
	if pv := mock.Catch(func() { outer.HandleRead(outerCtx, fr) }); pv != nil {
		out.Inconclusive = fmt.Sprintf("nested: the outer decoder raised %v on a well-formed envelope", pv)
		return out
	}
	if re, ok := innerPanic.(runtime.Error); ok {
		out.Violation = core.Viol("C08/runtime-fault:"+cd.Kind, "nested: decoder failed with a runtime error: %v", re)
		return out
	}
	if len(deliveries) > 1 {
		out.Violation = core.Viol("C08/multiple-deliveries:"+cd.Kind, "nested: %d messages delivered by one HandleRead", len(deliveries))
		return out
	}
	if len(deliveries) == 1 {
		d := deliveries[0]
		if d.err != nil && !errors.Is(d.err, io.EOF) {
			cls.Add("consumer-read-error")
			return out
		}
		if v := judgeDelivery(cd, ref, true, d); v != nil {
			v.Msg = "behind an outer varint envelope of " + fmt.Sprint(len(c.Stream)) + " bytes: " + v.Msg
			out.Violation = v
			return out
		}
		cls.Add("delivered-ok")
		return out
	}
	if innerPanic != nil {
		cls.Add("raised:%s", ref.Status)
		if ref.Status == wire.Truncated {
			cls.Add("nested-frame-longer-than-envelope-raised")
			out.NonTrivial = true
		}
	}
	return out
}

// runC08Packets: every inbound message is a []byte packet; a frame is complete only if the packet holds all of it.
func runC08Packets(c C08Case, dec netty.InboundHandler, cls *core.ClassSet, out core.Outcome) core.Outcome {
	cd := c.Codec
	cls.Add("inbound:packets")
	buf := bytes.Repeat([]byte{0xEE}, len(c.Stream)+4096) // reused: older packets' bytes stay behind the current one
	pos := 0
	for k := 0; pos < len(c.Stream) && k < 64; k++ {
		n := imin(c.Cuts[imin(k, len(c.Cuts)-1)], len(c.Stream)-pos)
		copy(buf, c.Stream[pos:pos+n])
		packet := buf[:n] // capacity and memory behind it belong to the reused buffer
		pos += n
		ref := cd.RefDecode(c.Stream[pos-n:pos], false)
		var deliveries []c08Consumed
		ctx := &mock.Ctx{OnRead: func(m netty.Message) { deliveries = append(deliveries, consumeMessageAs(m, c.Consume)) }}
		pv := mock.Catch(func() { dec.HandleRead(ctx, packet) })
		if re, ok := pv.(runtime.Error); ok {
			out.Violation = core.Viol("C08/runtime-fault:"+cd.Kind, "decoder failed with a runtime error on a %d-byte packet: %v", n, re)
			return out
		}
		if len(deliveries) > 1 {
			out.Violation = core.Viol("C08/multiple-deliveries:"+cd.Kind, "%d messages delivered for one packet", len(deliveries))
			return out
		}
		if len(deliveries) == 1 {
			d := deliveries[0]
			if d.err != nil && !errors.Is(d.err, io.EOF) {
				cls.Add("consumer-read-error")
				continue
			}
			if v := judgeDelivery(cd, ref, true, d); v != nil {
				v.Msg = fmt.Sprintf("packet %d (%d bytes): %s", k, n, v.Msg)
				out.Violation = v
				return out
			}
			cls.Add("delivered-ok")
			if ref.Consumed < n {
				cls.Add("packet-with-trailing-bytes")
			}
			continue
		}
		if pv != nil {
			cls.Add("raised:%s", ref.Status)
			if ref.Status == wire.Truncated {
				cls.Add("packet-truncated-frame-raised")
				out.NonTrivial = true
			}
			continue
		}
		if ref.Status == wire.OK && len(ref.Msg) > 0 {
			// neither delivered nor raised although the packet holds a complete frame: silent loss is not C08's subject
			cls.Add("silent-consume")
		}
	}
	return out
}

func runC08Channel(c C08Case, cd wire.Codec, dec netty.InboundHandler, cls *core.ClassSet, out core.Outcome) core.Outcome {
	cls.Add("layer:channel")
	var mu sync.Mutex
	var got []c08Consumed
	var afterEnd int
	var rig *chanRig
	consumer := netty.InboundHandlerFunc(func(ctx netty.InboundContext, m netty.Message) {
		d := consumeMessageAs(m, c.Consume)
		if d.err != nil && !errors.Is(d.err, io.EOF) {
			panic(d.err) // what a real consumer does: raise
		}
		mu.Lock()
		got = append(got, d)
		if rig.tr.InboundLeft() == 0 && c.End != "park" {
			afterEnd++
		}
		stop := afterEnd > 100
		mu.Unlock()
		if stop {
			ctx.Close(fmt.Errorf("verif: stopping a spinning read loop"))
		}
	})
	rig = newChanRig(0, dec, consumer)
	defer rig.shutdown()
	pos := 0
	for k := 0; pos < len(c.Stream); k++ {
		sz := len(c.Stream)
		if len(c.Cuts) > 0 {
			sz = c.Cuts[imin(k, len(c.Cuts)-1)]
		}
		if sz > len(c.Stream)-pos {
			sz = len(c.Stream) - pos
		}
		rig.tr.Feed(c.Stream[pos : pos+sz])
		pos += sz
	}
	switch c.End {
	case "eof":
		rig.tr.PeerClose()
	case "err":
		rig.tr.FailRead(wire.ErrStream)
	}
	if !rig.quiesce(10 * time.Second) {
		out.Inconclusive = "channel layer: read loop neither parked nor closed within 10 s"
		return out
	}
	mu.Lock()
	defer mu.Unlock()
	// compare deliveries with the reference
	p := 0
	for i, d := range got {
		ref := cd.RefDecode(c.Stream[p:], false)
		if v := judgeDelivery(cd, ref, true, d); v != nil {
			v.Msg = fmt.Sprintf("channel layer, delivery %d: %s", i, v.Msg)
			out.Violation = v
			return out
		}
		p += ref.Consumed
	}
	if c.End != "park" {
		// the stream ended: the channel must have been closed
		if !rig.tr.IsClosed() {
			out.Violation = core.Viol("C08/not-closed-after-end-of-stream:"+cd.Kind, "stream ended (%s) but the channel was not closed; %d messages delivered", c.End, len(got))
			return out
		}
		for _, ex := range rig.exceptions() {
			var re runtime.Error
			if errors.As(ex, &re) {
				out.Violation = core.Viol("C08/runtime-fault:"+cd.Kind, "channel layer: runtime error exception %v", ex)
				return out
			}
		}
		// a stream that was well-formed up to the point where the transport failed: the exception that ends the channel
		// is the transport's error (possibly wrapped), not a substitute that hides what happened
		if c.End == "err" {
			wellFormed, q := true, 0
			for q < len(c.Stream) {
				st := cd.RefDecode(c.Stream[q:], false)
				if st.Status == wire.OK && st.Consumed > 0 {
					q += st.Consumed
					continue
				}
				// the transport fails inside a frame body (or between the bytes of a fixed-length frame): the header said
				// what to expect, only the transport is to blame
				wellFormed = st.Status == wire.Truncated && (st.Why == "body incomplete" || st.Why == "fixed frame incomplete" || st.Why == "delimiter missing")
				break
			}
			if exs := rig.exceptions(); wellFormed && len(exs) > 0 {
				found := false
				for _, ex := range exs {
					if errors.Is(ex, wire.ErrStream) {
						found = true
					}
				}
				if !found {
					out.Violation = core.Viol("C08/read-error-replaced:"+cd.Kind, "channel layer: the transport read failed with %q inside a well-formed stream, but the exceptions raised are %v: the decoder replaced the transport's error", wire.ErrStream, exs)
					return out
				}
				cls.Add("transport-error-reported-as-is")
			}
		}
	}
	return out
}

func TestC08(t *testing.T) {
	core.Main(t, core.Prop[C08Case]{
		ID:  "C08",
		Gen: genC08,
		Run: runC08,
	})
}
