package props

import (
	"context"
	"errors"
	"fmt"
	"strings"
	"testing"
	"time"

	netty "github.com/go-netty/go-netty"
	"pgregory.net/rapid"

	"verif/harness/core"
	"verif/harness/sched"
)

// C18 — back-pressure: non-blocking mode never blocks; blocking mode is cancellable.

func genC18(t *rapid.T) E1Case {
	var c E1Case
	c.Kind = rapid.SampledFrom([]string{"qblock", "qnonblock"}).Draw(t, "kind")
	c.Queue = rapid.SampledFrom([]int{1, 1, 2, 2, 3, 4}).Draw(t, "queue")
	c.Buffered = rapid.Bool().Draw(t, "buffered")
	c.Stall = rapid.SampledFrom([]string{"", "", "never"}).Draw(t, "stall")
	nw := rapid.IntRange(1, 4).Draw(t, "writers")
	live := false
	noProbe := false // a streamed reader pushed on by the terminal probe would keep writing chunks beside the harness
	for w := 0; w < nw; w++ {
		task := E1Task{Role: "writer"}
		for i := rapid.IntRange(1, 5).Draw(t, "calls"); i > 0; i-- {
			op := genWriteOp(t, e1Entries)
			for k := range op.Sizes {
				if op.Sizes[k] > 3000 {
					op.Sizes[k] = op.Sizes[k] % 11
				}
			}
			if nw == 1 && rapid.IntRange(0, 3).Draw(t, "readfrom") == 0 { // single writer only: other writers would interleave with the chunks (C09)
				// a streamed reader: several low-level writes; the second or third one may find the queue full
				op = E1Op{Op: "readfrom", Sizes: []int{rapid.SampledFrom([]int{1500, 3000, 4096}).Draw(t, "rfsize")}, N: rapid.SampledFrom([]int{700, 1024, 4096}).Draw(t, "rfstep")}
				noProbe = true
			}
			if (op.Op == "writev" || op.Op == "ctxwritev") && rapid.IntRange(0, 5).Draw(t, "bigvec") == 0 {
				// a vector beyond the largest pooled size class (65536): all of it is accepted, or none of it
				op.Sizes = rapid.SampledFrom([][]int{{40000, 30000}, {30000, 10000, 30000}, {65536, 1}, {20000, 20000, 20000, 20000}}).Draw(t, "bigsizes")
			}
			if op.Op == "ctxwrite1" || op.Op == "ctxwritev" {
				op.Ctx = rapid.SampledFrom([]string{"", "live", "live", "cancelled", "deadline"}).Draw(t, "ctx")
				live = live || op.Ctx == "live"
			}
			task.Ops = append(task.Ops, op)
		}
		c.Tasks = append(c.Tasks, task)
	}
	if live {
		c.Tasks = append(c.Tasks, E1Task{Role: "canceller", Ops: []E1Op{{Op: "cancelctx"}}})
	}
	if rapid.IntRange(0, 5).Draw(t, "parentcancel") == 0 {
		// the context the channel was created from ends (what Shutdown does first): the channel's own context is done,
		// which releases every writer waiting for queue space, with or without a context of its own
		c.Tasks = append(c.Tasks, E1Task{Role: "canceller", Ops: []E1Op{{Op: "cancelparent"}}})
	}
	if rapid.IntRange(0, 3).Draw(t, "withclose") == 0 {
		c.Tasks = append(c.Tasks, E1Task{Role: "closer", Ops: []E1Op{{Op: "close", Err: rapid.SampledFrom(closeErrKinds).Draw(t, "cerr")}}})
		c.Futile = 1
	}
	if c.Stall == "" && rapid.IntRange(0, 2).Draw(t, "directed") == 0 {
		// park the sender inside the transport's Writev with a batch in flight
		c.Prefix = []E1Dir{
			{Task: 0, Label: "enqueue.after"},
			{Task: 0, Label: "call.begin"},
			{Task: -1, Label: rapid.SampledFrom([]string{"t.writev", "send.beforeWritev", "send.top"}).Draw(t, "where")},
		}
	}
	c.Schedule = genSchedule(t, 150)
	c.Probe = rapid.IntRange(0, 3).Draw(t, "probe") == 0 && !noProbe // costs real time (waits for a goroutine to block)
	return c
}

func runC18(c E1Case) (out core.Outcome) {
	r := newE1(c)
	r.s.Watchdog = 4 * time.Second
	r.wantBound = true
	defer func() { out.Classes = r.cls.List() }()
	r.execute()
	nonblocking := c.Kind == "qnonblock"
	if r.incon != "" {
		// a call that went into enqueue and never came back?
		for _, t := range r.tasks {
			td, _ := t.Data.(*e1TaskData)
			if td != nil && td.call != nil && td.call.End == 0 && td.call.SawEnqueue && !t.Done() && t.Label() == "" && strings.Contains(r.incon, "enqueue.before") {
				if nonblocking {
					out.Violation = core.Viol("C18/nonblocking-call-blocked", "%s in non-blocking mode went past enqueue and did not return (queue full then: %v): %s", td.call.Op.Op, td.call.FullThen, r.incon)
				} else {
					out.Violation = core.Viol("C18/blocking-call-stuck-with-room", "%s resumed with room or a finished context (full=%v ctxdone=%v chandone=%v) did not return: %s", td.call.Op.Op, td.call.FullThen, td.call.CtxDoneThen, td.call.ChanDoneThen, r.incon)
				}
				return
			}
		}
		// a non-blocking call that keeps coming back to the enqueue point instead of returning is waiting for space by polling
		if nonblocking && strings.Contains(r.incon, "step bound") {
			for _, t := range r.tasks {
				td, _ := t.Data.(*e1TaskData)
				if td != nil && td.call != nil && td.call.End == 0 && !t.Done() && t.Visits["enqueue.before"] > 100 {
					out.Violation = core.Viol("C18/nonblocking-call-blocked", "%s in non-blocking mode has tried to enqueue %d times without returning (the sender is stalled): it waits for queue space", td.call.Op.Op, t.Visits["enqueue.before"])
					return
				}
			}
		}
		out.Inconclusive = r.incon
		r.sweep(true)
		return
	}
	// the same, found by the scheduler itself: a call that was let past the enqueue point (there was room, or a context
	// had ended) waits inside the library at the terminal state, where nothing can wake it any more
	for _, t := range r.tasks {
		td, _ := t.Data.(*e1TaskData)
		if td != nil && td.call != nil && td.call.End == 0 && td.call.SawEnqueue && t.Blocked() && t.Label() == "enqueue.before" {
			r.baseClasses()
			if nonblocking {
				out.Violation = core.Viol("C18/nonblocking-call-blocked", "%s in non-blocking mode went past enqueue and did not return (queue full then: %v): task %s is blocked inside the library at the terminal state", td.call.Op.Op, td.call.FullThen, t.Name)
			} else {
				out.Violation = core.Viol("C18/blocking-call-stuck-with-room", "%s resumed with room or a finished context (full=%v ctxdone=%v chandone=%v) did not return: task %s is blocked inside the library at the terminal state", td.call.Op.Op, td.call.FullThen, td.call.CtxDoneThen, td.call.ChanDoneThen, t.Name)
			}
			r.sweep(true)
			return
		}
	}
	r.baseClasses()
	if msg := r.escapedPanic(); msg != "" {
		out.Violation = core.Viol("C18/panic-escaped", "a write call did not accept or reject the payload but panicked: %s", msg)
		r.sweep(true)
		return
	}

	// terminal probe (blocking mode): a writer parked on a full queue with no finished context must really wait
	var probed *sched.Task
	if !nonblocking && c.Probe {
		for _, t := range r.tasks {
			td, _ := t.Data.(*e1TaskData)
			if t.Done() || t.Label() != "enqueue.before" || td == nil || td.call == nil {
				continue
			}
			st, _ := netty.VerifState(r.ch)
			if st.QueueLen < st.QueueCap || r.ch.Context().Err() != nil || (td.ctx != nil && td.ctx.Err() != nil) {
				continue
			}
			e1cur = r
			back, state := r.s.ForceResume(t, 80*time.Millisecond)
			e1cur = nil
			probed = t
			td.call.Forced = true
			if back {
				out.Violation = core.Viol("C18/blocking-call-did-not-wait", "%s in blocking mode met a full queue (no context finished) and returned (%d, %v) instead of waiting", td.call.Op.Op, td.call.N, td.call.Err)
				r.sweep(true)
				return
			}
			if !strings.Contains(state, "select") && !strings.Contains(state, "chan send") {
				out.Inconclusive = "terminal probe: writer neither returned nor is blocked in select: " + state
				r.sweep(true)
				return
			}
			r.cls.Add("probe:blocking-writer-waits")
			if c.LongWaitSec > 0 && td.call.Op.Ctx == "" {
				// no context, room never comes, the channel stays open: the call waits, however long it takes
				time.Sleep(time.Duration(c.LongWaitSec) * time.Second)
				if td.call.End != 0 {
					out.Violation = core.Viol("C18/blocking-call-did-not-wait", "%s in blocking mode (no context) met a full queue, waited, and returned (%d, %v) after less than %d s although no space became available and the channel is open", td.call.Op.Op, td.call.N, td.call.Err, c.LongWaitSec)
					r.sweep(true)
					return
				}
				r.cls.Add("probe:still-waiting-after-%ds", c.LongWaitSec)
			}
			// while that writer waits inside the enqueue, another waiting writer must stay cancellable
			for _, t2 := range r.tasks {
				td2, _ := t2.Data.(*e1TaskData)
				if t2 == t || t2.Done() || t2.Label() != "enqueue.before" || td2 == nil || td2.call == nil || td2.call.Op.Ctx != "live" {
					continue
				}
				for _, cancel := range r.liveCtx {
					cancel()
				}
				old := r.s.Watchdog
				r.s.Watchdog = 2 * time.Second
				e1cur = r
				_, err := r.s.StepTask(t2)
				e1cur = nil
				r.s.Watchdog = old
				if err == nil && t2.Blocked() && td2.call.End == 0 {
					// the scheduler found it waiting inside the library (a lock, a channel) and went on without it
					err = fmt.Errorf("task %s is blocked inside the library", t2.Name)
				}
				if err != nil {
					out.Violation = core.Viol("C18/waiting-writer-not-cancellable", "%s was waiting for queue space behind another waiting writer; after its context was cancelled it did not return within 2 s: %v", td2.call.Op.Op, err)
					return
				}
				r.cls.Add("probe:second-waiter-cancelled")
				break
			}
			break
		}
	}
	_ = probed

	r.sweep(false)
	if r.incon != "" {
		out.Inconclusive = r.incon
		r.sweep(true)
		return
	}
	defer func() {
		r.sweep(true)
		if out.Violation == nil && r.incon != "" {
			out.Inconclusive = r.incon
		}
	}()

	stream, _ := r.tr.Accepted()
	p, v := r.parseStream(stream)
	if v != nil {
		v.Sig = "C18/" + v.Sig[len("stream/"):]
		out.Violation = v
		return
	}
	in := map[int]bool{}
	for _, id := range p.order {
		in[id] = true
	}
	for _, w := range r.calls {
		if !isWriteOp(w.Op.Op) {
			continue
		}
		if w.End == 0 {
			out.Violation = core.Viol("C18/writer-never-returned", "%s (call #%d) never returned although the sender ran to completion afterwards (parked: %v)", w.Op.Op, w.ID, r.stuck())
			return
		}
		if w.Op.Op == "readfrom" {
			// several low-level writes in one call: the recorded queue state is that of its last attempt only, and a
			// refusal leaves the leading chunks on the wire (the stream parser accepts that). Judged here: it returned.
			r.cls.Add("readfrom:%s", c.Kind)
			if errors.Is(w.Err, netty.ErrAsyncNoSpace) {
				r.cls.Add("readfrom-refused-midway")
			}
			continue
		}
		if !w.SawEnqueue {
			// returned before the enqueue point; nothing else ran since the call began
			if errors.Is(w.Err, netty.ErrAsyncNoSpace) && !w.FullAtBegin {
				out.Violation = core.Viol("C18/no-space-but-room", "%s returned the queue-full error although the queue had room (call #%d, rejected before the enqueue point)", w.Op.Op, w.ID)
				return
			}
			if w.Err != nil && w.OpenAtBegin && !errors.Is(w.Err, netty.ErrAsyncNoSpace) && w.Op.Ctx != "cancelled" {
				out.Violation = core.Viol("C18/unexplained-error", "%s on an open channel returned %v before reaching the queue", w.Op.Op, w.Err)
				return
			}
			continue
		}
		if w.Forced {
			// pushed past a full queue by the terminal probe: it waited inside the select, then got room
			if w.Err != nil && !errors.Is(w.Err, context.Canceled) && r.ch.IsActive() {
				out.Violation = core.Viol("C18/blocking-call-did-not-wait", "%s waited on a full queue and then returned %v", w.Op.Op, w.Err)
				return
			}
			continue
		}
		if w.FullThen {
			out.NonTrivial = true
			r.cls.Add("queue-full-at-call")
		}
		noCtx := !w.CtxDoneThen && !w.ChanDoneThen
		isNoSpace := errors.Is(w.Err, netty.ErrAsyncNoSpace)
		switch {
		case nonblocking && isNoSpace && !w.FullThen:
			out.Violation = core.Viol("C18/no-space-but-room", "%s returned the queue-full error although the queue had room at that moment (call #%d)", w.Op.Op, w.ID)
			return
		case nonblocking && w.FullThen && noCtx && !isNoSpace:
			out.Violation = core.Viol("C18/full-queue-not-reported", "%s met a full queue in non-blocking mode and returned (%d, %v) instead of the queue-full error", w.Op.Op, w.N, w.Err)
			return
		case !nonblocking && isNoSpace:
			out.Violation = core.Viol("C18/blocking-returned-no-space", "%s in blocking mode returned the queue-full error", w.Op.Op)
			return
		case w.Err == nil && w.FullThen && noCtx:
			out.Violation = core.Viol("C18/accepted-into-full-queue", "%s succeeded although the queue was full", w.Op.Op)
			return
		case w.Err != nil && !isNoSpace && noCtx:
			out.Violation = core.Viol("C18/unexplained-error", "%s returned %v although the queue had room=%v and no context was finished", w.Op.Op, w.Err, !w.FullThen)
			return
		case w.Err == nil && !w.FullThen && false:
		case w.Err != nil && !w.FullThen && noCtx:
			out.Violation = core.Viol("C18/rejected-with-room", "%s returned %v although the queue had room and no context was finished", w.Op.Op, w.Err)
			return
		}
		if w.Err != nil && w.CtxDoneThen && !w.ChanDoneThen && !w.FullThen {
			// both 'room' and 'context finished' held: either outcome is allowed
			r.cls.Add("ctx-done-with-room")
		}
		if w.Err != nil {
			if errors.Is(w.Err, context.Canceled) {
				r.cls.Add("returned:ctx-cancelled")
			} else if isNoSpace {
				r.cls.Add("returned:no-space")
			} else {
				r.cls.Add("returned:closed")
			}
			if w.Parked {
				r.cls.Add("parked-then-released-by-error")
			}
			if in[w.ID] {
				out.Violation = core.Viol("C18/failed-call-transmitted", "%s returned %v but its bytes were transmitted", w.Op.Op, w.Err)
				return
			}
			if w.N != 0 {
				out.Violation = core.Viol("C18/failed-call-count", "%s returned (%d, %v)", w.Op.Op, w.N, w.Err)
				return
			}
		} else if w.Parked {
			r.cls.Add("parked-then-released-by-room")
		}
	}
	// "the batch being sent" was taken from the queue, so it never holds more than the queue does; how large the
	// sender makes its batches is its own business (this tree: queue/2+1)
	limit := 2 * c.Queue
	if limit < c.Queue+1 {
		limit = c.Queue + 1
	}
	if r.bound > limit {
		out.Violation = core.Viol("C18/too-many-accepted-unsent", "%d payloads were accepted but not yet handed to the transport; queue size %d + the largest batch that can be taken from it (%d) = %d", r.bound, c.Queue, limit-c.Queue, limit)
		return
	}
	if r.bound >= c.Queue+1 {
		r.cls.Add("bound-reached")
	}
	r.cls.Add("stall:%s", c.Stall)
	return
}

// enumC18 (thorough tier only): one writer without a context waits on a full queue behind a stalled sender for more
// than half a minute of real time (a time limit hidden in a context would not be touched by the clock redirection).
func enumC18(emit func(E1Case)) {
	if !core.Thorough() {
		return
	}
	for _, entry := range []string{"write1", "writev"} {
		emit(E1Case{Kind: "qblock", Queue: 1, Stall: "never", Probe: true, LongWaitSec: 31,
			Tasks: []E1Task{{Role: "writer", Ops: []E1Op{{Op: entry, Sizes: []int{3}}, {Op: entry, Sizes: []int{3}}, {Op: entry, Sizes: []int{3}}}}}})
	}
}

func TestC18(t *testing.T) {
	core.Main(t, core.Prop[E1Case]{
		ID:      "C18",
		Gen:     genC18,
		Run:     runC18,
		Enum:    enumC18,
		Summary: summarizeE1,
	})
}
