// Package sched is a cooperative scheduler whose schedule is data.
//
// Every goroutine of a case is a Task created through the scheduler. Exactly
// one task runs at a time; a task stops at a Yield (hook point, mock transport
// call, explicit harness yield) or at its end. At every decision the scheduler
// computes the enabled tasks (parked tasks whose predicate holds), consults the
// next schedule entry and resumes one task. The execution is a pure function of
// the case: no wall clock and no runtime scheduling decision is involved as
// long as tasks only block at Yields.
package sched

import (
	"fmt"
	"os"
	"runtime"
	"strconv"
	"strings"
	"sync"
	"time"
)

type state int

const (
	stRunning state = iota
	stParked
	stDone
)

// Task is one cooperatively scheduled goroutine.
type Task struct {
	ID       int
	Name     string
	s        *Sched
	st       state
	label    string
	enabled  func() bool
	resume   chan struct{}
	Panic    interface{} // recovered panic value that escaped the task function
	Stack    string
	Visits   map[string]int // label -> number of times parked there
	Started  bool           // has run at least one slice under the scheduler (or freely in set-up)
	Data     interface{}    // harness data (per-task call context etc.)
	gid      int64
	detached bool // forced past a false predicate and blocked inside the code under test
	// blockedAt: the label the task was resumed from when it was found blocked inside the code under test (a wait on a
	// channel, a lock or a condition without a yield point) and detached by the scheduler itself. Until it parks again it
	// is reported as parked there, disabled: logically it has not moved.
	blockedAt string
	// RunWall is the real time the task has spent running (between being resumed and parking again): time it slept or
	// was blocked inside the code under test, apart from computing
	RunWall time.Duration
}

// Gate sets the enabledness predicate of a task that is parked (typically at
// "start"): the scheduler will not pick it while the predicate is false.
func (t *Task) Gate(pred func() bool) {
	t.s.mu.Lock()
	t.enabled = pred
	t.s.mu.Unlock()
}

// Label is where the task is parked ("" when running or done). A task that the scheduler found blocked inside the code
// under test right after resuming it counts as still parked where it was.
func (t *Task) Label() string {
	if t.label == "" && t.detached && t.blockedAt != "" {
		return t.blockedAt
	}
	return t.label
}

// Blocked reports whether the task was detached by the scheduler because it blocks inside the code under test.
func (t *Task) Blocked() bool { return t.detached && t.blockedAt != "" }

// Done reports whether the task function returned.
func (t *Task) Done() bool { return t.st == stDone }

// Sched is the scheduler.
type Sched struct {
	mu        sync.Mutex
	tasks     []*Task
	cur       *Task
	timer     *time.Timer
	softTimer *time.Timer
	streak    int
	nDetached int
	Fair      int // maximum consecutive decisions for one task while others are enabled
	Forced    int // decisions taken by the fairness rule
	notify    chan struct{}
	Schedule  []uint8
	pos       int
	last      *Task
	running   bool
	Steps     int // number of scheduling decisions taken (logical time)
	Preempts  int // decisions that switched away from an enabled running task
	MaxSteps  int
	Watchdog  time.Duration
	// SoftDetach: a resumed task that has neither parked nor ended after this long is looked at; if its goroutine waits
	// on a channel, a lock or a condition inside the code under test (not asleep, not runnable), the wait has no yield
	// point: the task is detached (it continues on its own once somebody wakes it) and the others go on. 0 = never.
	SoftDetach  time.Duration
	AutoBlocked int // tasks detached that way
	seq         int
	// Trace, when non-nil, receives one line per decision.
	Trace func(step int, t *Task, label string)
	// OnStep is called (scheduler goroutine, no task running) before every decision.
	OnStep func()
}

// New returns a scheduler for one case.
func New(schedule []uint8) *Sched {
	return &Sched{notify: make(chan struct{}, 1), Schedule: schedule,
		MaxSteps: 20000, Watchdog: watchdogDefault(), Fair: 300, SoftDetach: 400 * time.Millisecond}
}

// watchdogDefault is 20 s; VERIF_TEST_WATCHDOG_MS shortens it in the generated search only (not in replays), which is
// how the driver's second look at an inconclusive case is exercised.
func watchdogDefault() time.Duration {
	if ms, err := strconv.Atoi(os.Getenv("VERIF_TEST_WATCHDOG_MS")); err == nil && ms > 0 && os.Getenv("VERIF_MODE") != "replay" {
		return time.Duration(ms) * time.Millisecond
	}
	return 20 * time.Second
}

// Seq returns the next value of a global event counter (total order of recorded events).
func (s *Sched) Seq() int {
	s.mu.Lock()
	defer s.mu.Unlock()
	s.seq++
	return s.seq
}

// Current returns the running task (nil when no task runs). Exactly one task
// runs at a time and every goroutine that calls into the harness while a task
// runs is that task, so no goroutine identity is needed (runtime.Stack-based
// goroutine ids cost more than the whole rest of a case).
func (s *Sched) Current() *Task {
	s.mu.Lock()
	if s.nDetached > 0 {
		// slow path: a detached task runs on its own; tell the goroutines apart
		s.mu.Unlock()
		g := goid()
		s.mu.Lock()
		for _, t := range s.tasks {
			if t.detached && t.gid == g {
				s.mu.Unlock()
				return t
			}
		}
	}
	t := s.cur
	if t != nil && t.st != stRunning {
		t = nil
	}
	s.mu.Unlock()
	return t
}

func goid() int64 {
	var buf [40]byte
	n := runtime.Stack(buf[:], false)
	b := buf[10:n] // after "goroutine "
	var id int64
	for _, c := range b {
		if c < '0' || c > '9' {
			break
		}
		id = id*10 + int64(c-'0')
	}
	return id
}

// Go creates a task. If free is true the task starts running at once, outside
// any schedule, until its first Yield (used for the set-up phase); otherwise it
// is parked at "start" until the scheduler picks it.
func (s *Sched) Go(name string, free bool, fn func()) *Task {
	s.mu.Lock()
	t := &Task{ID: len(s.tasks), Name: name, s: s, resume: make(chan struct{}), Visits: map[string]int{}}
	s.tasks = append(s.tasks, t)
	if free {
		t.st = stRunning
		t.Started = true
		s.cur = t
	} else {
		t.st = stParked
		t.label = "start"
	}
	s.mu.Unlock()
	go func() {
		t.gid = goid()
		defer func() {
			if p := recover(); p != nil {
				t.Panic = p
				buf := make([]byte, 16<<10)
				t.Stack = string(buf[:runtime.Stack(buf, false)])
			}
			s.mu.Lock()
			t.st = stDone
			t.label = ""
			if s.cur == t {
				s.cur = nil
			}
			if t.detached {
				t.detached = false
				t.blockedAt = ""
				s.nDetached--
			}
			s.mu.Unlock()
			s.wake()
		}()
		if !free {
			<-t.resume
		}
		fn()
	}()
	return t
}

func (s *Sched) wake() {
	select {
	case s.notify <- struct{}{}:
	default:
	}
}

// Yield parks the calling task at label until the scheduler resumes it; the
// task is only eligible while enabled() holds (nil = always). A call from a
// goroutine that is not a task returns immediately.
func (s *Sched) Yield(label string, enabled func() bool) {
	t := s.Current()
	if t == nil {
		return
	}
	s.mu.Lock()
	t.st = stParked
	t.label = label
	t.enabled = enabled
	t.Visits[label]++
	if s.cur == t {
		s.cur = nil
	}
	if t.detached {
		t.detached = false
		t.blockedAt = ""
		s.nDetached--
	}
	s.mu.Unlock()
	s.wake()
	<-t.resume
}

// Tasks returns all tasks created so far.
func (s *Sched) Tasks() []*Task {
	s.mu.Lock()
	defer s.mu.Unlock()
	return append([]*Task(nil), s.tasks...)
}

// ErrWatchdog is reported when a resumed task neither yields nor ends.
type ErrWatchdog struct {
	Task  *Task
	Label string
}

func (e *ErrWatchdog) Error() string {
	return fmt.Sprintf("task %d (%s) resumed from %q did not yield or end within the watchdog", e.Task.ID, e.Task.Name, e.Label)
}

// ErrSteps is reported when the step bound is exhausted (livelock).
type ErrSteps struct{ Steps int }

func (e *ErrSteps) Error() string { return fmt.Sprintf("step bound %d exhausted", e.Steps) }

// settle waits until no task is running.
func (s *Sched) settle(who *Task, from string) error {
	armed, softArmed := false, false
	var begin time.Time
	looked := 0
	defer func() {
		if softArmed {
			s.softTimer.Stop()
		}
	}()
	for {
		s.mu.Lock()
		busy := false
		for _, t := range s.tasks {
			if t.st == stRunning && !t.detached {
				busy = true
				break
			}
		}
		s.mu.Unlock()
		if !busy {
			if armed {
				s.timer.Stop()
			}
			return nil
		}
		if !armed {
			if s.timer == nil {
				s.timer = time.NewTimer(s.Watchdog)
			} else {
				s.timer.Reset(s.Watchdog)
			}
			armed = true
			begin = time.Now()
		}
		var soft <-chan time.Time
		if s.SoftDetach > 0 && who != nil && looked < 20 {
			if !softArmed {
				d := s.SoftDetach*time.Duration(looked+1) - time.Since(begin)
				if d < time.Millisecond {
					d = time.Millisecond
				}
				if s.softTimer == nil {
					s.softTimer = time.NewTimer(d)
				} else {
					s.softTimer.Reset(d)
				}
				softArmed = true
			}
			soft = s.softTimer.C
		}
		select {
		case <-s.notify:
		case <-soft:
			softArmed = false
			looked++
			if blockedInCodeUnderTest(goroutineState(who.gid)) {
				s.mu.Lock()
				if who.st == stRunning && !who.detached {
					who.detached = true
					who.blockedAt = from
					s.nDetached++
					s.AutoBlocked++
					if s.cur == who {
						s.cur = nil
					}
				}
				s.mu.Unlock()
			}
		case <-s.timer.C:
			return &ErrWatchdog{Task: who, Label: from}
		}
	}
}

// blockedInCodeUnderTest: the goroutine waits (channel, select, lock, condition, wait group) and the innermost frame
// outside the runtime and the sync packages belongs to the library under test.
func blockedInCodeUnderTest(state string) bool {
	if state == "" {
		return false
	}
	head := state
	if i := strings.Index(head, "\n"); i >= 0 {
		head = head[:i]
	}
	waiting := false
	for _, w := range []string{"[chan receive", "[chan send", "[select", "[sync.Cond.Wait", "[semacquire", "[sync.Mutex.Lock", "[sync.RWMutex", "[sync.WaitGroup.Wait"} {
		if strings.Contains(head, w) {
			waiting = true
		}
	}
	if !waiting {
		return false
	}
	for _, line := range strings.Split(state, "\n")[1:] {
		if strings.HasPrefix(line, "\t") || line == "" {
			continue
		}
		if strings.HasPrefix(line, "runtime.") || strings.HasPrefix(line, "sync.") || strings.HasPrefix(line, "internal/") || strings.HasPrefix(line, "sync/atomic.") || strings.HasPrefix(line, "context.") || strings.HasPrefix(line, "time.") {
			continue
		}
		return strings.HasPrefix(line, "github.com/go-netty/go-netty")
	}
	return false
}

// Settle waits for free-running set-up tasks to park.
func (s *Sched) Settle() error {
	var who *Task
	s.mu.Lock()
	if s.AutoBlocked > 0 && s.nDetached > 0 {
		// a task that was blocked inside the code under test may just have been woken by the last slice: give it a moment
		// to reach its next yield point, so that the decision that follows sees it
		s.mu.Unlock()
		s.WaitDetached(2 * time.Millisecond)
		s.mu.Lock()
	}
	for _, t := range s.tasks {
		if t.st == stRunning {
			who = t
		}
	}
	s.mu.Unlock()
	if who == nil {
		return nil
	}
	return s.settle(who, "set-up")
}

// EnabledTasks returns the parked tasks whose predicate holds (by ID).
func (s *Sched) EnabledTasks() []*Task {
	s.mu.Lock()
	parked := make([]*Task, 0, len(s.tasks))
	for _, t := range s.tasks {
		if t.st == stParked {
			parked = append(parked, t)
		}
	}
	s.mu.Unlock()
	out := parked[:0]
	for _, t := range parked {
		if t.enabled == nil || t.enabled() {
			out = append(out, t)
		}
	}
	return out
}

// Parked returns tasks that are parked (enabled or not).
func (s *Sched) Parked() []*Task {
	s.mu.Lock()
	defer s.mu.Unlock()
	var out []*Task
	for _, t := range s.tasks {
		if t.st == stParked || (t.st == stRunning && t.detached && t.blockedAt != "") {
			out = append(out, t)
		}
	}
	return out
}

// Step takes one scheduling decision. It returns false when no task is enabled.
func (s *Sched) Step() (bool, error) {
	if err := s.Settle(); err != nil {
		return false, err
	}
	if s.OnStep != nil {
		s.OnStep()
	}
	en := s.EnabledTasks()
	if len(en) == 0 {
		return false, nil
	}
	if s.Steps >= s.MaxSteps {
		return false, &ErrSteps{s.Steps}
	}
	var v uint8
	if s.pos < len(s.Schedule) {
		v = s.Schedule[s.pos]
	}
	s.pos++
	lastEnabled := false
	for _, t := range en {
		if t == s.last {
			lastEnabled = true
		}
	}
	var pick *Task
	if lastEnabled && len(en) > 1 && s.streak >= s.Fair {
		// fairness: a task that spins (e.g. a read loop polling a failing
		// transport) must not starve the task that would end the spin
		for i, t := range en {
			if t == s.last {
				pick = en[(i+1)%len(en)]
			}
		}
		s.Forced++
	} else if v == 0 || len(en) == 1 {
		if lastEnabled {
			pick = s.last
		} else {
			pick = en[0]
		}
	} else {
		others := en
		if lastEnabled {
			others = make([]*Task, 0, len(en)-1)
			for _, t := range en {
				if t != s.last {
					others = append(others, t)
				}
			}
			s.Preempts++
		}
		pick = others[int(v-1)%len(others)]
	}
	return true, s.resumeTask(pick)
}

func (s *Sched) resumeTask(t *Task) error {
	s.mu.Lock()
	if t.st != stParked {
		s.mu.Unlock()
		return nil // not waiting to be resumed (done, or blocked inside the code under test)
	}
	from := t.label
	t.st = stRunning
	t.label = ""
	t.enabled = nil
	t.Started = true
	s.cur = t
	s.Steps++
	step := s.Steps
	s.mu.Unlock()
	if s.Trace != nil {
		s.Trace(step, t, from)
	}
	if s.last == t {
		s.streak++
	} else {
		s.streak = 0
	}
	s.last = t
	begin := time.Now()
	t.resume <- struct{}{}
	err := s.settle(t, from)
	t.RunWall += time.Since(begin)
	return err
}

// RunTo resumes task t (which must be enabled) repeatedly until it is parked at
// one of the labels, is done, or is not enabled. Used for directed prefixes.
func (s *Sched) RunTo(t *Task, labels ...string) (reached bool, err error) {
	for i := 0; i < 10000; i++ {
		if err := s.Settle(); err != nil {
			return false, err
		}
		if t.st == stDone {
			return false, nil
		}
		if t.st != stParked {
			return false, nil // blocked inside the code under test (detached): nothing to resume
		}
		for _, l := range labels {
			if t.label == l {
				return true, nil
			}
		}
		if t.enabled != nil && !t.enabled() {
			return false, nil
		}
		if s.Steps >= s.MaxSteps {
			return false, &ErrSteps{s.Steps}
		}
		if err := s.resumeTask(t); err != nil {
			return false, err
		}
	}
	return false, &ErrSteps{s.Steps}
}

// ForceResume resumes a parked task although its predicate is false and waits
// up to d for it to park again or end. If it does neither, the task is blocked
// inside the code under test: it is marked detached (it will continue on its
// own once unblocked) and false is returned together with its goroutine state.
func (s *Sched) ForceResume(t *Task, d time.Duration) (cameBack bool, state string) {
	if err := s.Settle(); err != nil || t.st != stParked {
		return true, ""
	}
	s.mu.Lock()
	t.st = stRunning
	t.label = ""
	t.enabled = nil
	s.cur = t
	s.Steps++
	s.mu.Unlock()
	s.last = t
	t.resume <- struct{}{}
	deadline := time.Now().Add(d)
	for {
		s.mu.Lock()
		st := t.st
		s.mu.Unlock()
		if st != stRunning {
			return true, ""
		}
		if time.Now().After(deadline) {
			break
		}
		select {
		case <-s.notify:
		case <-time.After(2 * time.Millisecond):
		}
	}
	state = goroutineState(t.gid)
	s.mu.Lock()
	if t.st == stRunning {
		t.detached = true
		s.nDetached++
		if s.cur == t {
			s.cur = nil
		}
		s.mu.Unlock()
		return false, state
	}
	s.mu.Unlock()
	return true, ""
}

// goroutineState returns the header and first frames of the goroutine with the given id.
func goroutineState(gid int64) string {
	buf := make([]byte, 1<<20)
	buf = buf[:runtime.Stack(buf, true)]
	marker := fmt.Sprintf("goroutine %d [", gid)
	i := strings.Index(string(buf), marker)
	if i < 0 {
		return ""
	}
	rest := string(buf[i:])
	if j := strings.Index(rest, "\n\n"); j >= 0 {
		rest = rest[:j]
	}
	if len(rest) > 1500 {
		rest = rest[:1500]
	}
	return rest
}

// ResumeDetached resumes a parked task that is expected to block inside the
// code under test at a place without a yield (e.g. ServeChannel waiting for the
// activation). It is marked detached at once: it continues on its own and
// becomes an ordinary task again at its next Yield.
func (s *Sched) ResumeDetached(t *Task) {
	if err := s.Settle(); err != nil || t.st != stParked {
		return
	}
	s.mu.Lock()
	t.st = stRunning
	t.label = ""
	t.enabled = nil
	t.detached = true
	s.nDetached++
	s.Steps++
	s.mu.Unlock()
	t.resume <- struct{}{}
}

// WaitDetached waits until no detached task is left running (each has parked
// again or ended); it reports false on timeout (still blocked).
func (s *Sched) WaitDetached(d time.Duration) bool {
	deadline := time.Now().Add(d)
	for {
		s.mu.Lock()
		n := s.nDetached
		s.mu.Unlock()
		if n == 0 {
			return true
		}
		if time.Now().After(deadline) {
			return false
		}
		select {
		case <-s.notify:
		case <-time.After(time.Millisecond):
		}
	}
}

// StepTask resumes task t once if it is parked and enabled.
func (s *Sched) StepTask(t *Task) (bool, error) {
	if err := s.Settle(); err != nil {
		return false, err
	}
	if t.st != stParked || (t.enabled != nil && !t.enabled()) {
		return false, nil
	}
	if s.Steps >= s.MaxSteps {
		return false, &ErrSteps{s.Steps}
	}
	return true, s.resumeTask(t)
}

// Run takes decisions until no task is enabled.
func (s *Sched) Run() error {
	for {
		ok, err := s.Step()
		if err != nil {
			return err
		}
		if !ok {
			return nil
		}
	}
}

// Drain runs with all-zero choices (run-to-completion, lowest task first) until nothing is enabled.
func (s *Sched) Drain() error {
	s.pos = len(s.Schedule)
	return s.Run()
}
