// Package core is the shared property-test runner: it drives a generator with
// rapid, runs the case, applies known-finding handling, collects coverage
// statistics and writes them out for the driver.
//
// A property is split into generator (all randomness), runner+oracle (pure
// function of the case) so that a failing case is a plain JSON value that can be
// replayed without rapid.
package core

import (
	"encoding/binary"
	"encoding/json"
	"fmt"
	"hash/fnv"
	"os"
	"sort"
	"strings"
	"sync"
	"testing"

	"pgregory.net/rapid"
)

// Violation describes a property violation. Sig names the root-cause class
// (used to match known findings); Msg is for humans.
type Violation struct {
	Sig string `json:"sig"`
	Msg string `json:"msg"`
}

func (v *Violation) String() string { return v.Sig + ": " + v.Msg }

// Viol builds a violation.
func Viol(sig, format string, args ...interface{}) *Violation {
	return &Violation{Sig: sig, Msg: fmt.Sprintf(format, args...)}
}

// Outcome is the result of running one case.
type Outcome struct {
	Violation    *Violation
	Classes      []string // labels describing what this case exercised
	NonTrivial   bool     // by the property's stated rule
	Excluded     int      // items excluded by construction because of listed findings
	Inconclusive string   // non-empty: infrastructure trouble (watchdog etc.), not a verdict
}

// Prop is one property check.
type Prop[C any] struct {
	ID       string
	Rule     string   // how cases are generated and what is non-trivial
	Required []string // classes that must be non-empty for a pass to be reported
	Gen      func(t *rapid.T) C
	Run      func(c C) Outcome
	// Summary optionally renders a case compactly for evidence samples.
	Summary func(c C) interface{}
	// Enum optionally emits deterministic (enumerated) cases that are run
	// before the random search, through the same oracle and statistics.
	Enum func(emit func(C))
}

// Tier returns "quick" or "thorough".
func Tier() string {
	if os.Getenv("VERIF_TIER") == "thorough" {
		return "thorough"
	}
	return "quick"
}

// Thorough reports whether the thorough tier is running.
func Thorough() bool { return Tier() == "thorough" }

// Stats is written to $VERIF_STATS_OUT at the end of a run.
type Stats struct {
	Property      string                 `json:"property"`
	Evaluations   int                    `json:"evaluations"`
	ShrinkEvals   int                    `json:"shrink_evaluations"`
	NonTrivial    int                    `json:"nontrivial"`
	DistinctNT    int                    `json:"distinct_nontrivial"`
	Classes       map[string]int         `json:"classes"`
	Excluded      int                    `json:"excluded"`
	KnownHits     map[string]int         `json:"known_hits"`
	KnownWitness  map[string]string      `json:"known_witness"`
	Samples       []interface{}          `json:"samples"`
	Inconclusive  []string               `json:"inconclusive"`
	InconCases    []string               `json:"inconclusive_cases,omitempty"` // saved cases, parallel to Inconclusive ("" = not saved)
	Violation     *Violation             `json:"violation,omitempty"`
	ViolationCase string                 `json:"violation_case,omitempty"`
	HashFile      string                 `json:"hash_file,omitempty"`
	Extra         map[string]interface{} `json:"extra,omitempty"`
}

type knownFile struct {
	Findings []struct {
		Property  string `json:"property"`
		Signature string `json:"signature"`
		Status    string `json:"status"`
	} `json:"findings"`
}

// KnownSigs returns the listed (status "known") signatures for a property.
func KnownSigs(prop string) map[string]bool {
	out := map[string]bool{}
	path := os.Getenv("VERIF_KNOWN_FILE")
	if path == "" {
		return out
	}
	data, err := os.ReadFile(path)
	if err != nil {
		return out
	}
	var kf knownFile
	if json.Unmarshal(data, &kf) != nil {
		return out
	}
	for _, f := range kf.Findings {
		if f.Property == prop && f.Status == "known" {
			out[f.Signature] = true
		}
	}
	return out
}

// HashCase returns a 64-bit hash of the canonical JSON form of a case.
func HashCase(c interface{}) uint64 {
	data, _ := json.Marshal(c)
	h := fnv.New64a()
	h.Write(data)
	return h.Sum64()
}

type collector struct {
	st        Stats
	hashes    map[uint64]struct{}
	failed    bool
	minHash   uint64
	minSample interface{}
}

func newCollector(id string) *collector {
	return &collector{
		st:     Stats{Property: id, Classes: map[string]int{}, KnownHits: map[string]int{}, KnownWitness: map[string]string{}},
		hashes: map[uint64]struct{}{}, minHash: ^uint64(0),
	}
}

func (c *collector) flush() {
	c.st.DistinctNT = len(c.hashes)
	if c.minSample != nil {
		c.st.Samples = append(c.st.Samples, c.minSample)
	}
	out := os.Getenv("VERIF_STATS_OUT")
	if out == "" {
		return
	}
	// hashes to a side file so the driver can union them across shards
	hf := out + ".hashes"
	keys := make([]uint64, 0, len(c.hashes))
	for k := range c.hashes {
		keys = append(keys, k)
	}
	sort.Slice(keys, func(i, j int) bool { return keys[i] < keys[j] })
	buf := make([]byte, 8*len(keys))
	for i, k := range keys {
		binary.LittleEndian.PutUint64(buf[8*i:], k)
	}
	if os.WriteFile(hf, buf, 0o644) == nil {
		c.st.HashFile = hf
	}
	data, _ := json.MarshalIndent(&c.st, "", " ")
	_ = os.WriteFile(out, data, 0o644)
}

func writeCase(path string, c interface{}, v *Violation) {
	if path == "" {
		return
	}
	data, _ := json.MarshalIndent(map[string]interface{}{"case": c, "violation": v}, "", " ")
	_ = os.WriteFile(path, data, 0o644)
}

// LoadCase reads a case file written by writeCase (or a bare case JSON).
func LoadCase[C any](path string) (C, error) {
	var c C
	data, err := os.ReadFile(path)
	if err != nil {
		return c, err
	}
	var wrapper struct {
		Case json.RawMessage `json:"case"`
	}
	if json.Unmarshal(data, &wrapper) == nil && len(wrapper.Case) > 0 {
		data = wrapper.Case
	}
	dec := json.NewDecoder(strings.NewReader(string(data)))
	dec.DisallowUnknownFields()
	err = dec.Decode(&c)
	return c, err
}

// Main runs a property in the mode selected by the environment.
//
//	VERIF_MODE=replay VERIF_CASE=<file>   run one saved case (no rapid)
//	otherwise                             rapid search
func Main[C any](t *testing.T, p Prop[C]) {
	if os.Getenv("VERIF_MODE") == "replay" {
		c, err := LoadCase[C](os.Getenv("VERIF_CASE"))
		if err != nil {
			fmt.Printf("REPLAY-RESULT: error %v\n", err)
			t.Fatalf("cannot load case: %v", err)
		}
		out := p.Run(c)
		switch {
		case out.Inconclusive != "":
			fmt.Printf("REPLAY-RESULT: inconclusive %s\n", out.Inconclusive)
		case out.Violation != nil:
			b, _ := json.Marshal(out.Violation)
			fmt.Printf("REPLAY-RESULT: violation %s\n", b)
		default:
			fmt.Printf("REPLAY-RESULT: pass\n")
		}
		return
	}

	known := KnownSigs(p.ID)
	col := newCollector(p.ID)
	defer col.flush()
	failCase := os.Getenv("VERIF_FAIL_CASE")
	witnessDir := os.Getenv("VERIF_WITNESS_DIR")
	maxSamples := 2

	// process runs one case; it returns the unlisted violation, if any.
	process := func(c C) *Violation {
		out := p.Run(c)
		if col.failed {
			col.st.ShrinkEvals++
		} else {
			col.st.Evaluations++
			col.st.Excluded += out.Excluded
			for _, cl := range out.Classes {
				col.st.Classes[cl]++
			}
			if out.NonTrivial {
				col.st.NonTrivial++
				h := HashCase(c)
				if _, dup := col.hashes[h]; !dup {
					col.hashes[h] = struct{}{}
					var s interface{} = c
					if p.Summary != nil {
						s = p.Summary(c)
					}
					if len(col.st.Samples) < maxSamples {
						col.st.Samples = append(col.st.Samples, s)
					} else if h < col.minHash {
						col.minHash, col.minSample = h, s
					}
				}
			}
		}
		if out.Inconclusive != "" {
			if len(col.st.Inconclusive) < 20 {
				col.st.Inconclusive = append(col.st.Inconclusive, out.Inconclusive)
				// the driver runs the case again on its own (a watchdog that went off on a busy machine is not a verdict)
				path := ""
				if witnessDir != "" {
					path = fmt.Sprintf("%s/incon-%s-%016x.json", witnessDir, os.Getenv("VERIF_SHARD"), HashCase(c))
					writeCase(path, c, nil)
				}
				col.st.InconCases = append(col.st.InconCases, path)
			}
			return nil
		}
		if v := out.Violation; v != nil {
			if known[v.Sig] {
				if !col.failed {
					col.st.KnownHits[v.Sig]++
					if _, ok := col.st.KnownWitness[v.Sig]; !ok && witnessDir != "" {
						path := fmt.Sprintf("%s/%s-%016x.json", witnessDir, sanitize(v.Sig), HashCase(c))
						writeCase(path, c, v)
						col.st.KnownWitness[v.Sig] = path
					}
				}
				return nil
			}
			col.failed = true
			col.st.Violation = v
			col.st.ViolationCase = failCase
			writeCase(failCase, c, v)
			return v
		}
		return nil
	}

	if p.Enum != nil && os.Getenv("VERIF_SKIP_ENUM") == "" {
		var first *Violation
		p.Enum(func(c C) {
			if first == nil {
				first = process(c)
			}
		})
		col.st.Extra = map[string]interface{}{"enumerated": col.st.Evaluations}
		if first != nil {
			t.Fatalf("VIOLATION %s", first.String())
		}
	}

	rapid.Check(t, func(rt *rapid.T) {
		c := p.Gen(rt)
		if v := process(c); v != nil {
			rt.Fatalf("VIOLATION %s", v.String())
		}
	})
}

func sanitize(s string) string {
	var b strings.Builder
	for _, r := range s {
		if r >= 'a' && r <= 'z' || r >= 'A' && r <= 'Z' || r >= '0' && r <= '9' || r == '-' || r == '_' {
			b.WriteRune(r)
		} else {
			b.WriteByte('_')
		}
	}
	return b.String()
}

// ClassSet accumulates class labels without duplicates (safe for concurrent use).
type ClassSet struct {
	mu sync.Mutex
	m  map[string]struct{}
}

// NewClassSet returns an empty set.
func NewClassSet() *ClassSet { return &ClassSet{m: map[string]struct{}{}} }

// Add adds a (formatted) label.
func (s *ClassSet) Add(format string, args ...interface{}) {
	if len(args) > 0 {
		format = fmt.Sprintf(format, args...)
	}
	s.mu.Lock()
	s.m[format] = struct{}{}
	s.mu.Unlock()
}

// Has reports whether the label is present.
func (s *ClassSet) Has(label string) bool {
	s.mu.Lock()
	defer s.mu.Unlock()
	_, ok := s.m[label]
	return ok
}

// List returns the labels, sorted.
func (s *ClassSet) List() []string {
	s.mu.Lock()
	defer s.mu.Unlock()
	out := make([]string, 0, len(s.m))
	for k := range s.m {
		out = append(out, k)
	}
	sort.Strings(out)
	return out
}
