// Package wire holds the byte-stream tools shared by the codec properties:
// codec configurations, independent reference framers (written against the
// documented parameter semantics, Netty's for the length-field codec), a
// fragmenting reader and message flattening.
package wire

import (
	"bytes"
	"encoding/binary"
	"errors"
	"fmt"
	"io"
	"strings"

	netty "github.com/go-netty/go-netty"
	"github.com/go-netty/go-netty/codec"
	"github.com/go-netty/go-netty/codec/frame"
)

// Codec describes one frame-codec configuration (JSON-serialisable).
type Codec struct {
	Kind     string `json:"kind"` // lf | prep | varint | delim | fixed | varlen (C08 only)
	Width    int    `json:"width,omitempty"`
	Little   bool   `json:"little,omitempty"`
	OwnOrder bool   `json:"ownorder,omitempty"` // the byte order is handed over as an application-defined ByteOrder value
	Off      int    `json:"off,omitempty"`
	Adj      int    `json:"adj,omitempty"`   // lf: decoder lengthAdjustment; prep: prepender lengthAdjustment
	Strip    int    `json:"strip,omitempty"` // initialBytesToStrip
	Max      int    `json:"max,omitempty"`
	IncLen   bool   `json:"inclen,omitempty"` // prep: lengthIncludesLengthFieldLength
	Delim    []byte `json:"delim,omitempty"`
	StripD   bool   `json:"stripd,omitempty"`
	Fixed    int    `json:"fixed,omitempty"`
}

func (c Codec) order() binary.ByteOrder {
	var o binary.ByteOrder = binary.BigEndian
	if c.Little {
		o = binary.LittleEndian
	}
	if c.OwnOrder {
		return ownOrder{o} // behaves the same, but is not identical to binary.LittleEndian/BigEndian
	}
	return o
}

// ownOrder is an application-defined binary.ByteOrder (like binary.NativeEndian, or a wrapper that counts calls).
type ownOrder struct{ binary.ByteOrder }

// DecAdj is the decoder-side lengthAdjustment.
func (c Codec) DecAdj() int {
	if c.Kind == "prep" {
		a := c.Adj
		if c.IncLen {
			a += c.Width
		}
		return -a
	}
	return c.Adj
}

// Build constructs the real decoder (inbound) and encoder (outbound).
// The encoder is nil when the shipped encoder cannot produce frames for this
// decoder configuration (length-field with offset or adjustment).
func (c Codec) Build() (dec netty.InboundHandler, enc netty.OutboundHandler) {
	switch c.Kind {
	case "lf":
		cc := frame.LengthFieldCodec(c.order(), c.Max, c.Off, c.Width, c.Adj, c.Strip)
		if c.Off == 0 && c.Adj == 0 {
			return cc, cc
		}
		return cc, nil
	case "prep":
		return frame.LengthFieldCodec(c.order(), c.Max, 0, c.Width, c.DecAdj(), c.Strip),
			frame.LengthFieldPrepender(c.order(), c.Width, c.Adj, c.IncLen)
	case "varint":
		cc := frame.VarintLengthFieldCodec(c.Max)
		return cc, cc
	case "delim":
		cc := frame.DelimiterCodec(c.Max, string(c.Delim), c.StripD)
		return cc, cc
	case "fixed":
		cc := frame.FixedLengthCodec(c.Fixed)
		return cc, cc
	case "varlen":
		// "maximum received length" decoder: one frame per transport read, at most Max bytes (no encoder side)
		cc := frame.VariableLengthCodec(c.Max)
		return cc, nil
	}
	panic("unknown codec kind " + c.Kind)
}

// BuildCodec returns the codec as one handler (for pipelines).
func (c Codec) BuildCodec() netty.Handler {
	dec, enc := c.Build()
	if enc == nil {
		return dec
	}
	if cc, ok := dec.(codec.Codec); ok && c.Kind != "prep" {
		return cc
	}
	return codec.Combine("verif-"+c.Kind, dec, enc)
}

// HeaderLen is the number of leading bytes before the body in an lf/prep frame.
func (c Codec) HeaderLen() int { return c.Off + c.Width }

func putLen(order binary.ByteOrder, width int, v uint64) []byte {
	b := make([]byte, width)
	switch width {
	case 1:
		b[0] = byte(v)
	case 2:
		order.PutUint16(b, uint16(v))
	case 4:
		order.PutUint32(b, uint32(v))
	case 8:
		order.PutUint64(b, v)
	}
	return b
}

func getLen(order binary.ByteOrder, width int, b []byte) uint64 {
	switch width {
	case 1:
		return uint64(b[0])
	case 2:
		return uint64(order.Uint16(b))
	case 4:
		return uint64(order.Uint32(b))
	default:
		return order.Uint64(b)
	}
}

// Fits reports whether the length-field value v is representable in width bytes.
func Fits(width int, v int64) bool {
	if v < 0 {
		return false
	}
	if width >= 8 {
		return true
	}
	return v < int64(1)<<(8*uint(width))
}

// ErrNotEncodable means the configuration cannot represent this payload.
var ErrNotEncodable = errors.New("payload not encodable with this configuration")

// RefEncode frames payload according to the configuration (reference framer).
// prefix supplies the Off bytes before the length field (padded with zeros).
func (c Codec) RefEncode(payload, prefix []byte) ([]byte, error) {
	switch c.Kind {
	case "lf", "prep":
		off := c.Off
		if c.Kind == "prep" {
			off = 0
		}
		// total = off+width + L + decAdj  and total = off+width+len(payload)  =>  L = len(payload) - decAdj
		l := int64(len(payload)) - int64(c.DecAdj())
		if !Fits(c.Width, l) {
			return nil, ErrNotEncodable
		}
		out := make([]byte, 0, off+c.Width+len(payload))
		pre := make([]byte, off)
		copy(pre, prefix)
		out = append(out, pre...)
		out = append(out, putLen(c.order(), c.Width, uint64(l))...)
		return append(out, payload...), nil
	case "varint":
		var head [binary.MaxVarintLen64]byte
		n := binary.PutUvarint(head[:], uint64(len(payload)))
		return append(append([]byte{}, head[:n]...), payload...), nil
	case "delim":
		return append(append([]byte{}, payload...), c.Delim...), nil
	case "fixed":
		if len(payload) != c.Fixed {
			return nil, ErrNotEncodable
		}
		return append([]byte{}, payload...), nil
	}
	return nil, ErrNotEncodable
}

// Status of a reference decode step.
type Status int

const (
	OK        Status = iota // a complete, admissible frame
	Truncated               // the stream ends before the frame is complete
	Reject                  // the frame is inadmissible (too large, negative, bad header)
)

func (s Status) String() string { return [...]string{"ok", "truncated", "reject"}[s] }

// Step is the result of decoding one frame at the start of buf.
type Step struct {
	Status   Status
	Msg      []byte // delivered message (after stripping)
	Consumed int    // bytes of buf belonging to the frame (OK only)
	// MaxPull bounds the bytes a decoder may take from the source while handling this step.
	MaxPull int
	Why     string
}

// RefDecode decodes the first frame of buf. unlimited disables the max check
// (used to judge encoders: header consistent with body).
func (c Codec) RefDecode(buf []byte, unlimited bool) Step {
	switch c.Kind {
	case "lf", "prep":
		off := c.Off
		if c.Kind == "prep" {
			off = 0
		}
		hl := off + c.Width
		if len(buf) < hl {
			return Step{Status: Truncated, MaxPull: hl, Why: "header incomplete"}
		}
		raw := getLen(c.order(), c.Width, buf[off:hl])
		if int64(raw) < 0 {
			return Step{Status: Reject, MaxPull: hl, Why: "negative length field"}
		}
		total := int64(raw) + int64(c.DecAdj()) + int64(hl)
		if total < int64(hl) {
			return Step{Status: Reject, MaxPull: hl, Why: "adjusted length below header"}
		}
		if !unlimited && total > int64(c.Max) {
			return Step{Status: Reject, MaxPull: hl, Why: "frame larger than max"}
		}
		if int64(c.Strip) > total {
			return Step{Status: Reject, MaxPull: hl, Why: "strip beyond frame"}
		}
		if int64(len(buf)) < total {
			return Step{Status: Truncated, MaxPull: int(total), Why: "body incomplete"}
		}
		return Step{Status: OK, Msg: buf[c.Strip:total], Consumed: int(total), MaxPull: int(total)}
	case "varint":
		v, n := binary.Uvarint(buf)
		if n == 0 {
			return Step{Status: Truncated, MaxPull: len(buf) + 1, Why: "varint incomplete"}
		}
		if n < 0 {
			return Step{Status: Reject, MaxPull: binary.MaxVarintLen64, Why: "varint overflow"}
		}
		if !unlimited && v > uint64(c.Max) {
			return Step{Status: Reject, MaxPull: n, Why: "frame larger than max"}
		}
		if uint64(len(buf)-n) < v {
			return Step{Status: Truncated, MaxPull: n + int(v), Why: "body incomplete"}
		}
		return Step{Status: OK, Msg: buf[n : n+int(v)], Consumed: n + int(v), MaxPull: n + int(v)}
	case "delim":
		idx := bytes.Index(buf, c.Delim)
		end := idx + len(c.Delim)
		if idx < 0 || (!unlimited && end > c.Max) {
			// no delimiter within the first Max bytes
			if !unlimited && len(buf) >= c.Max {
				return Step{Status: Reject, MaxPull: c.Max, Why: "no delimiter within max"}
			}
			if idx < 0 {
				return Step{Status: Truncated, MaxPull: len(buf) + 1, Why: "delimiter missing"}
			}
			return Step{Status: Reject, MaxPull: c.Max, Why: "no delimiter within max"}
		}
		msg := buf[:end]
		if c.StripD {
			msg = buf[:idx]
		}
		return Step{Status: OK, Msg: msg, Consumed: end, MaxPull: end}
	case "fixed":
		if len(buf) < c.Fixed {
			return Step{Status: Truncated, MaxPull: c.Fixed, Why: "fixed frame incomplete"}
		}
		return Step{Status: OK, Msg: buf[:c.Fixed], Consumed: c.Fixed, MaxPull: c.Fixed}
	}
	return Step{Status: Reject, Why: "unknown codec"}
}

// Fragmenter serves a byte stream in scripted read sizes.
type Fragmenter struct {
	Data []byte
	Cuts []int  // successive maximum read sizes (>=1); the last one repeats
	End  string // "eof" | "err" | "eofdata" (last bytes returned together with io.EOF)
	// Zero > 0: every Zero-th Read call returns (0, nil) before anything else (io.Reader allows an empty read; an
	// empty TLS record or a wrapping transport produces them), never twice in a row
	Zero      int
	lastZero  bool
	ZeroReads int
	pos       int
	cut       int // index into Cuts
	left      int // remaining bytes of the current cut
	Pulled    int // total bytes handed out
	EndHits   int // number of Read calls answered with the terminal error
	Reads     int
}

// ErrStream is the non-EOF terminal error of a Fragmenter.
var ErrStream = errors.New("verif: stream failed")

func (f *Fragmenter) Read(p []byte) (int, error) {
	f.Reads++
	if len(p) == 0 {
		return 0, nil
	}
	if f.Zero > 0 && f.Reads%f.Zero == 0 && !f.lastZero {
		f.lastZero = true
		f.ZeroReads++
		return 0, nil
	}
	f.lastZero = false
	if f.pos >= len(f.Data) {
		f.EndHits++
		if f.End == "err" {
			return 0, ErrStream
		}
		return 0, io.EOF
	}
	if f.left == 0 {
		switch {
		case len(f.Cuts) == 0:
			f.left = len(f.Data)
		case f.cut < len(f.Cuts):
			f.left = f.Cuts[f.cut]
			f.cut++
		default:
			f.left = f.Cuts[len(f.Cuts)-1]
		}
		if f.left < 1 {
			f.left = 1
		}
	}
	n := len(p)
	if n > f.left {
		n = f.left
	}
	if n > len(f.Data)-f.pos {
		n = len(f.Data) - f.pos
	}
	copy(p, f.Data[f.pos:f.pos+n])
	f.pos += n
	f.left -= n
	f.Pulled += n
	if f.pos >= len(f.Data) && f.End == "eofdata" {
		f.EndHits++
		return n, io.EOF
	}
	return n, nil
}

// Pos is the number of bytes consumed so far.
func (f *Fragmenter) Pos() int { return f.pos }

// Ended reports whether all data has been handed out.
func (f *Fragmenter) Ended() bool { return f.pos >= len(f.Data) }

// Flatten converts an outbound message (what a codec hands to the next
// outbound handler) into bytes, reading readers to their end.
func Flatten(m interface{}) ([]byte, error) {
	switch v := m.(type) {
	case nil:
		return nil, fmt.Errorf("nil message")
	case []byte:
		return append([]byte{}, v...), nil
	case [][]byte:
		var out []byte
		for _, b := range v {
			out = append(out, b...)
		}
		return out, nil
	case string:
		return []byte(v), nil
	case *bytes.Buffer:
		return append([]byte{}, v.Bytes()...), nil
	case *strings.Reader:
		return io.ReadAll(v)
	case io.Reader:
		return io.ReadAll(v)
	case io.WriterTo:
		var b bytes.Buffer
		_, err := v.WriteTo(&b)
		return b.Bytes(), err
	}
	return nil, fmt.Errorf("cannot flatten %T", m)
}
