# Texts for MANIFEST.json (see gen_manifest.py).
HOOK_COMMITS = ["f9d80b6"]
NOTES = ("Technique family: property-based testing and fuzzing (rapid v1.3.0 + native go fuzzing in the thorough tier). "
         "Every check is ./check <ID> quick|thorough; replay with ./check <ID> --replay <case.json>. "
         "Exit 2 means inconclusive (infrastructure), never a verdict. Known findings: known_findings.json.")
ENGINES = [
    {"name": "core", "path": "harness/core", "serves_properties": ["*"],
     "kind_free_text": "rapid runner: case = JSON data, run+oracle separate from generation, replay without rapid, statistics and known-finding handling"},
]
_PENDING = "check not built yet in this session (planned, see DESIGN.md section 4)"
NOT_APPLICABLE = {("C%02d" % i): _PENDING for i in range(1, 21)}
META = {}
META["C19"] = dict(
    engine="core",
    design_ref="DESIGN.md section 4, C19",
    technique="property-based testing: rapid state-machine histories vs ownership/capacity model; exhaustive differential of size-class arithmetic vs math/bits",
    level_text="Randomised exploration of Get/Put histories (incl. foreign Puts of arbitrary capacity) against an ownership and capacity model, plus an exhaustive differential of the power-of-two helpers below 2^20; this is search, not proof: it shows the absence of violations on the explored histories only.",
    level_note="Trusts sync.Pool semantics, backing-array identity as buffer identity, GOMAXPROCS(1) for deterministic hand-over.",
)
