# Texts for MANIFEST.json (see gen_manifest.py).
HOOK_COMMITS = ["f9d80b6"]
NOTES = ("Technique family: property-based testing and fuzzing (rapid v1.3.0 + native go fuzzing in the thorough tier). "
         "Every check is ./check <ID> quick|thorough; replay with ./check <ID> --replay <case.json>. "
         "Exit 2 means inconclusive (infrastructure), never a verdict. Known findings: known_findings.json.")
ENGINES = [
    {"name": "core", "path": "harness/core", "serves_properties": ["*"],
     "kind_free_text": "rapid runner: case = JSON data, run+oracle separate from generation, replay without rapid, statistics and known-finding handling"},
]
_PENDING = "check not built yet in this session (planned, see DESIGN.md section 4)"
NOT_APPLICABLE = {("C%02d" % i): _PENDING for i in range(1, 21)}
META = {}
META["C19"] = dict(
    engine="core",
    design_ref="DESIGN.md section 4, C19",
    technique="property-based testing: rapid state-machine histories vs ownership/capacity model; exhaustive differential of size-class arithmetic vs math/bits",
    level_text="Randomised exploration of Get/Put histories (incl. foreign Puts of arbitrary capacity) against an ownership and capacity model, plus an exhaustive differential of the power-of-two helpers below 2^20; this is search, not proof: it shows the absence of violations on the explored histories only.",
    level_note="Trusts sync.Pool semantics, backing-array identity as buffer identity, GOMAXPROCS(1) for deterministic hand-over.",
)


def _m(engine, ref, technique, text, note):
    return dict(engine=engine, design_ref=ref, technique=technique, level_text=text, level_note=note)

_SCHED_NOTE = ("Trusts the cooperative scheduler (one task at a time, yields at verifPoint hooks and mock transport/executor calls), "
               "the mock transport and the call-id stream parser; interleavings finer than the yield points are not explored.")
ENGINES += [
    {"name": "sched", "path": "harness/sched", "serves_properties": ["C01", "C02", "C05", "C06", "C09", "C10", "C11", "C18"],
     "kind_free_text": "cooperative scheduler whose schedule is generated data (preemption-bounded search, directed prefixes, fairness rule)"},
    {"name": "mock", "path": "harness/mock", "serves_properties": ["*"],
     "kind_free_text": "recording mock transport (buffering, faults, scripted inbound stream), executors (scheduler tasks, inline/deferred), recording handler contexts"},
    {"name": "wire", "path": "harness/wire", "serves_properties": ["C04", "C08", "C16"],
     "kind_free_text": "independent reference framers/deframers, fragmenting reader, message flattening"},
]
META["C01"] = _m("sched", "DESIGN.md section 4, C01", "property-based testing: rapid-generated schedules and writer programs on a cooperative scheduler; oracle = transport byte stream parsed against accepted calls",
    "Generated-schedule exploration of writer/sender interleavings at hook-point granularity with an order/intactness oracle on the transport stream; search, not proof.", _SCHED_NOTE)
META["C02"] = _m("sched", "DESIGN.md section 4, C02", "property-based testing: generated schedules with directed prefixes into the sender's release window; stuck-state oracle under a harness-owned executor",
    "Exploration of the lost-wake-up window: the terminal state of a controlled execution decides 'eventually sent and flushed' exactly for that execution; search, not proof.", _SCHED_NOTE)
META["C10"] = _m("sched", "DESIGN.md section 4, C10", "property-based testing: generated schedules with buffer poisoning after every call and concurrent pool users; oracle = bytes at the transport equal the call-time snapshot",
    "Exploration of buffer-reuse/pool-recycling interleavings with a content oracle; search, not proof.", _SCHED_NOTE + " GOMAXPROCS(1) makes sync.Pool hand-over deterministic.")
META["C06"] = _m("sched", "DESIGN.md section 4, C06", "property-based testing: generated schedules placing Close inside every sender window; oracle over the transport event order",
    "Exploration of Close-vs-sender interleavings (incl. the release/re-acquire window) with an accepted-before-Close => flushed-before-transport-Close oracle; search, not proof.", _SCHED_NOTE + " Close's poll sleep is real time, so such cases are budgeted by count.")
META["C11"] = _m("sched", "DESIGN.md section 4, C11", "property-based testing: generated matrix of entry point x channel kind x close source/argument x caller context, writer enabled only after Close returned",
    "Exploration of every write entry point after every way a channel gets closed, repeated per case because select outcomes are runtime choices; search, not proof.", _SCHED_NOTE)
META["C04"] = _m("wire", "DESIGN.md section 4, C04", "property-based testing: generated codec configurations, boundary payloads and fragmentations; round-trip plus differential against independent reference framers",
    "Randomised round-trip/differential testing of all frame codecs at the codec layer and through a real channel; search, not proof.", "Trusts the reference framers (written from the parameter documentation) and the fragmenting reader.")
META["C08"] = _m("wire", "DESIGN.md section 4, C08", "property-based testing / structured-adversarial stream generation with end-of-stream cut points; differential against reference decoders with completeness, bound and progress invariants",
    "Fault-enumeration flavoured search: hostile headers, over-long varints, missing delimiters and every class of stream end are generated per decoder and judged call by call; sampled, not exhaustive.", "Trusts the reference decoders and the byte accounting of the fragmenting reader.")
META["C14"] = _m("mock", "DESIGN.md section 4, C14", "property-based testing: generated carriers, sizes and reader behaviours through the real head handler on sync and queued channels; helper functions against io.ReadAll-style references",
    "Randomised byte-exactness testing over 19 supported carrier shapes and 6 unsupported types, with inline and deferred sender executors; search, not proof.", "Trusts the mock transport's stream recording.")
META["C16"] = _m("wire", "DESIGN.md section 4, C16", "property-based testing: generated strings and JSON trees (round trip with exact number comparison), generated malformed frames, differential against encoding/json",
    "Randomised round-trip and rejection testing of the text and JSON codecs at codec layer and through a channel with a frame codec underneath; search, not proof.", "Trusts encoding/json as the definition of a complete valid JSON object.")
META["C17"] = _m("core", "DESIGN.md section 4, C17", "property-based testing: rapid state-machine style operation sequences against a byte-string model over an in-memory net.Conn",
    "Model-based random testing of the four transport wrapper variants; search, not proof.", "Trusts the in-memory net.Conn.")

META["C05"] = _m("sched", "DESIGN.md section 4, C05", "property-based testing: generated schedules over concurrent close sources (user, handlers, read/write failures, holder) with lifecycle probes; history invariants; plus a real-parallel closer stress for the yield-free election",
    "Exploration of Close/activation/read interleavings with invariants over the recorded history, including activation under the scheduler; the closer election itself (one atomic instruction) is only reachable by the real-parallel stress cases; search, not proof.", _SCHED_NOTE)
META["C09"] = _m("sched", "DESIGN.md section 4, C09", "property-based testing: generated schedules of concurrent Channel.Write calls over message carriers and codec pipelines; oracle = wire parses into whole messages (call-id table / reference deframer)",
    "Exploration of message-level interleavings; two listed findings (streamed reader / multi-write WriterTo messages) are excluded from the concurrent mix by construction and re-checked by their witness cases; search, not proof.", _SCHED_NOTE)
META["C18"] = _m("sched", "DESIGN.md section 4, C18", "property-based testing: generated schedules with stalled senders, cancelled/live contexts and Close; exact enabledness oracle from state read while nothing runs; terminal probe of blocked writers",
    "Exploration of full-queue behaviour in both modes: outcomes are judged against the queue/context state at the instant of the enqueue decision; blocking is verified by forcing a parked writer on and finding it in the enqueue select; search, not proof.", _SCHED_NOTE)

ENGINES += [{"name": "e3model", "path": "harness/props/e3_model_test.go", "serves_properties": ["C03", "C07"],
     "kind_free_text": "pipeline reference model (slice + index arithmetic, Go panics for exceptions) and 64 generated handler types with genuine method sets"}]
META["C03"] = _m("e3model", "DESIGN.md section 4, C03", "property-based testing: generated build programs and events against an independent slice model (differential), incl. negative cases",
    "Model-based random testing of pipeline construction and event routing through every entry point, with context-identity checks; search, not proof.", "Trusts the slice model (written from the statement and context.go's documented traversal rules) and the trace recorder.")
META["C07"] = _m("e3model", "DESIGN.md section 4, C07", "fault enumeration (720 small-pipeline fault points) + property-based generation of panic sites, exception-handler shapes and transport fault plans; differential against the pipeline model",
    "Exhaustive enumeration of the fault space for pipelines of at most three handlers plus random sampling of larger programs, with containment assertions (no escape, no wedge, process alive) and model trace equality.", "Trusts the pipeline model and a 15 s bound for 'the call never returned'.")
META["C13"] = _m("mock", "DESIGN.md section 4, C13", "property-based testing: generated listener/connect/accept/shutdown histories with a gated executor and mock transport factory; stuck-state ledger oracle",
    "Random exploration of start-up/shutdown overlaps where the harness decides when each executor action runs; the end state is judged when no goroutine can run any more; search, not proof.", "Trusts the goroutine tracker (running vs parked in a mock) and the mock factory/acceptor.")

META["C15"] = _m("mock", "DESIGN.md section 4, C15", "grammar-based property testing: generated request sequences x handler programs x fragmentations; differential against net/http (ReadResponse parse-back, request ground truth)",
    "Randomised end-to-end testing of the HTTP server codec through a real channel and read loop with net/http as the standard parser; search, not proof.", "Trusts net/http's parsers and the mock transport's stream recording.")

META["C12"] = _m("core", "DESIGN.md section 4, C12", "generated concurrent API programs (enumerated operation pairs + random batches, generated pacing) executed under the Go race detector; reports parsed and normalised into signatures",
    "Dynamic race detection over generated programs: judges only executed, unordered access pairs; pacing and repetition raise the chance that a racy pair is not masked by incidental ordering; search, not proof.", "Trusts the Go race detector and the in-process stderr capture; a racy pair separated by incidental happens-before edges in every run stays invisible.")

META["C20"] = _m("core", "DESIGN.md section 4, C20", "property-based testing over generated real-time timelines (stimuli, inactive and panics placed around expected timer expiries) with timestamp invariants and a stated slack",
    "Randomised timing exploration in real time: 200 timelines per case; detects early firing by >= 0.4 s, missing re-arming, events after inactive and unrouted panics; sub-millisecond races between HandleInactive and the timer callback are sampled, not enumerated.", "Trusts the wall clock within the 400 ms slack; hits are re-run once before being reported.")
