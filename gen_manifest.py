#!/usr/bin/env python3
"""Regenerates MANIFEST.json from checks_config.py (claimed checks) and manifest_meta.py (texts)."""
import json, os, sys
ROOT = os.path.dirname(os.path.abspath(__file__))
sys.path.insert(0, ROOT)
from checks_config import CHECKS
from manifest_meta import META, NOT_APPLICABLE, ENGINES, HOOK_COMMITS, NOTES

checks = []
for pid in sorted(CHECKS):
    cfg, meta = CHECKS[pid], META[pid]
    checks.append({
        "property_id": pid,
        "quick_cmd": "./check %s quick" % pid,
        "thorough_cmd": "./check %s thorough" % pid,
        "evidence_file": "/verif/evidence/%s.json" % pid,
        "replay_cmd_template": "./check %s --replay {path}" % pid,
        "engine": meta["engine"],
        "level_claimed": {"category": cfg["level"], "text": meta["level_text"], "design_ref": meta["design_ref"]},
        "level_note": meta["level_note"],
        "technique": meta["technique"],
    })
m = {
    "version": 1,
    "setup_cmd": "./setup.sh",
    "hooks": {
        "guard": "verif",
        "enable": "go build tag: the harness is compiled with `go test -c -tags verif` against /repo (replace directive), which enables verifPoint() observation points in channel.go, netty.VerifHook/VerifState and utils/pool.Verif* re-exports",
        "baseline_off_cmd": "cd /repo && GOFLAGS=-mod=mod GOPROXY=off GOSUMDB=off go test -json -vet=off -count=1 -timeout 25m ./...",
        "source_commits": HOOK_COMMITS,
        "add_only": True,
    },
    "engines": ENGINES,
    "checks": checks,
    "not_applicable": [{"property_id": k, "reason": v} for k, v in sorted(NOT_APPLICABLE.items()) if k not in CHECKS],
    "notes": NOTES,
}
json.dump(m, open(os.path.join(ROOT, "MANIFEST.json"), "w"), indent=1)
print("MANIFEST.json: %d checks, %d not_applicable" % (len(checks), len(m["not_applicable"])))
