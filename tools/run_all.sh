#!/bin/bash
# usage: tools/run_all.sh [tier] [ids...]   runs the checks sequentially on the current tree, prints one line each
tier=${1:-quick}; shift
ids=${@:-C01 C02 C03 C04 C05 C06 C07 C08 C09 C10 C11 C12 C13 C14 C15 C16 C17 C18 C19 C20}
cd /verif
for id in $ids; do
  s=$(date +%s)
  ./check $id $tier > /tmp/run_all.$id.out 2>&1; rc=$?
  echo "$id rc=$rc $(( $(date +%s) - s ))s $(grep -E "^(VIOLATION|INCONCLUSIVE|KNOWN)" /tmp/run_all.$id.out | head -3 | cut -c1-160 | tr '\n' ' ')"
done
