#!/bin/bash
# Runs every thorough check sequentially in a vp-run snapshot (cwd = snapshot of /verif), against the
# repository snapshot $VP_RUN_REPO when given (so that edits to /repo meanwhile do not disturb it).
set -u
if [ -n "${VP_RUN_REPO:-}" ]; then sed -i "s#=> /repo#=> $VP_RUN_REPO#" harness/go.mod; fi
ids=${@:-C17 C19 C16 C14 C08 C04 C03 C13 C15 C07 C10 C02 C01 C05 C12 C20 C09 C18 C11 C06}
for id in $ids; do
  s=$(date +%s)
  ./check $id thorough > thorough.$id.out 2>&1; rc=$?
  echo "$id rc=$rc $(( $(date +%s) - s ))s $(grep -E "^(C[0-9]+ thorough|VIOLATION|INCONCLUSIVE)" thorough.$id.out | head -3 | cut -c1-200 | tr '\n' ' ')"
done
