#!/bin/sh
# usage: tools/try_seed.sh <seeded-dir-name> <property> [quick|thorough]
# applies seeded/<name>/patch.diff to /repo, runs the check, reverts.
set -u
name=$1; prop=$2; tier=${3:-quick}
cd /verif
if ! git -C /repo diff --quiet; then echo "/repo dirty, abort"; exit 3; fi
if ! git -C /repo apply --3way /verif/seeded/$name/patch.diff 2>/tmp/apply.err; then
  git -C /repo reset -q --hard HEAD
  if ! git -C /repo apply /verif/seeded/$name/patch.diff; then echo "PATCH DOES NOT APPLY"; cat /tmp/apply.err; git -C /repo reset -q --hard HEAD; exit 3; fi
fi
git -C /repo reset -q
# the evidence file in /verif must keep describing the unchanged tree
cp evidence/$prop.json /tmp/try_seed.evidence.$prop.$$ 2>/dev/null
./check $prop $tier > /tmp/try_seed.$name.$prop.out 2>&1
rc=$?
if [ -f /tmp/try_seed.evidence.$prop.$$ ]; then mv /tmp/try_seed.evidence.$prop.$$ evidence/$prop.json; fi
git -C /repo reset -q --hard HEAD ; git -C /repo clean -fdq
echo "seed=$name property=$prop tier=$tier exit=$rc"
grep -E "^(violation|VIOLATION|INCONCLUSIVE|PASS|C[0-9]+ )" /tmp/try_seed.$name.$prop.out | head -6 | cut -c1-300
exit $rc
