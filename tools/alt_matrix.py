#!/usr/bin/env python3
"""Runs quick checks against patched copies of the tree WITHOUT touching /repo or /verif:
a scratch worktree of /repo HEAD and a scratch copy of /verif whose harness is pointed at it.

usage: tools/alt_matrix.py <patch-dir> <out.json> [--checks C01,C02,...] [--own] [--map extra.json] [name ...]
  <patch-dir>/<name>/patch.diff is applied (3-way) to the scratch worktree, every check listed is run
  (default: all 20), the result (exit code, first violation/inconclusive line) is recorded.
Used for (a) behaviour-preserving variants of the tree, where every check must stay silent, and
(b) cross-checking seeded defects against all checks."""
import json, os, re, shutil, subprocess, sys

ROOT = os.path.dirname(os.path.dirname(os.path.abspath(__file__)))
args = sys.argv[1:]
pdir, out = args[0], args[1]
args = args[2:]
checks = None
own = False
if args and args[0] == "--checks":
    checks = args[1].split(",")
    args = args[2:]
if args and args[0] == "--own":  # each patch against the check of its own property (name = <ID><suffix>)
    own = True
    args = args[1:]
cmap = {}
if args and args[0] == "--map":  # json file: name -> list of checks (in addition to its own); implies --own
    cmap = json.load(open(args[1]))
    own = True
    args = args[2:]
names = args or sorted(n for n in os.listdir(pdir) if os.path.exists(os.path.join(pdir, n, "patch.diff")))
sys.path.insert(0, ROOT)
from checks_config import CHECKS
checks = checks or sorted(CHECKS)

tag = "altm%d" % os.getpid()
wt = "/tmp/%s-repo" % tag
vf = "/tmp/%s-verif" % tag


def sh(cmd, cwd=None):
    return subprocess.run(cmd, shell=True, cwd=cwd, stdout=subprocess.PIPE, stderr=subprocess.STDOUT, text=True)


try:
    sh("git -C /repo worktree remove --force %s" % wt)
    r = sh("git -C /repo worktree add -q --detach %s HEAD" % wt)
    if r.returncode != 0:
        print("worktree failed", r.stdout)
        sys.exit(2)
    sh("rsync -a --exclude .git --exclude .build --exclude replays --exclude evidence %s/ %s/" % (ROOT, vf))
    os.makedirs(vf + "/evidence", exist_ok=True)
    sh("sed -i 's#=> /repo#=> %s#' harness/go.mod" % wt, cwd=vf)
    res = {}
    try:
        res = json.load(open(out))
    except Exception:
        pass
    for name in names:
        sh("git reset -q --hard HEAD && git clean -fdq", cwd=wt)
        r = sh("git apply --3way %s/%s/patch.diff && git reset -q" % (os.path.abspath(pdir), name), cwd=wt)
        if r.returncode != 0:
            sh("git reset -q --hard HEAD", cwd=wt)
            r = sh("git apply %s/%s/patch.diff" % (os.path.abspath(pdir), name), cwd=wt)
        if r.returncode != 0:
            res[name] = {"applies": False, "detail": r.stdout[-400:]}
            print(name, "DOES NOT APPLY", flush=True)
            continue
        b = sh("GOFLAGS=-mod=mod GOPROXY=off GOSUMDB=off GOTOOLCHAIN=local go build ./... && GOFLAGS=-mod=mod GOPROXY=off GOSUMDB=off GOTOOLCHAIN=local go build -tags verif ./...", cwd=wt)
        if b.returncode != 0:
            res[name] = {"applies": True, "builds": False, "detail": b.stdout[-600:]}
            print(name, "DOES NOT BUILD", flush=True)
            continue
        res.setdefault(name, {})
        ownid = name[:3] if name[0] == "C" else "C" + name[1:3]
        for cid in (([ownid] + [x for x in cmap.get(name, []) if x != ownid]) if own else checks):
            r = sh("./check %s quick" % cid, cwd=vf)
            m = re.search(r"^(violation \S+:.*|INCONCLUSIVE:.*|BUILD FAILED.*)$", r.stdout, re.M)
            res[name][cid] = {"exit": r.returncode, "line": (m.group(1)[:400] if m else None)}
            print(name, cid, r.returncode, (m.group(1)[:200] if m else ""), flush=True)
            json.dump(res, open(out, "w"), indent=1, sort_keys=True)
finally:
    sh("git -C /repo worktree remove --force %s" % wt)
    shutil.rmtree(vf, ignore_errors=True)
    shutil.rmtree(wt, ignore_errors=True)
