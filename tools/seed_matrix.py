#!/usr/bin/env python3
"""Runs every seeded change against the quick check of its property (and extra checks listed in EXTRA),
records which checks report a violation: seeded/RESULTS.json. /repo is restored after each run."""
import json, os, re, subprocess, sys, glob
ROOT = os.path.dirname(os.path.dirname(os.path.abspath(__file__)))
EXTRA = {"C01A": ["C02"], "C01B": ["C10"], "C06B": ["C01"], "C07A": ["C05"], "C12A": ["C01"], "C14A": ["C10"], "C16B": ["C14"], "C04B": ["C08"], "M09b": ["C01"], "M07d": ["C03"],
         "C01C": ["C10"], "C01D": ["C18"], "C03D": ["C07"], "C10C": ["C01"], "C10D": ["C01"], "C06D": ["C02"], "C04D": ["C09"], "C08D": ["C04"], "C05D": ["C13"], "C02D": ["C18"],
         "C09C": ["C01", "C12"], "C12C": ["C10", "C14"], "C14C": ["C10", "C01"], "C14D": ["C10"], "C09D": ["C04"], "C19C": ["C12"],
         "C02F": ["C07"], "C06F": ["C02"], "C09E": ["C01"], "C01E": ["C10"], "C10E": ["C01"], "C18E": ["C01"]}
only = sys.argv[1:]
res = {}
try:
    res = json.load(open(os.path.join(ROOT, "seeded", "RESULTS.json")))
except Exception:
    pass
for d in sorted(glob.glob(os.path.join(ROOT, "seeded", "*/"))):
    name = os.path.basename(d.rstrip("/"))
    if only and name not in only:
        continue
    if not os.path.exists(d + "patch.diff"):
        continue
    prop = name[:3] if name[0] == "C" else "C" + name[1:3]
    for check in [prop] + EXTRA.get(name, []):
        r = subprocess.run([os.path.join(ROOT, "tools", "try_seed.sh"), name, check], stdout=subprocess.PIPE, stderr=subprocess.STDOUT, text=True)
        m = re.search(r"exit=(\d+)", r.stdout)
        v = re.search(r"^violation (\S+):", r.stdout, re.M)
        res.setdefault(name, {})[check] = {"exit": int(m.group(1)) if m else None, "signature": v.group(1) if v else None}
        print(name, check, res[name][check], flush=True)
        json.dump(res, open(os.path.join(ROOT, "seeded", "RESULTS.json"), "w"), indent=1, sort_keys=True)
