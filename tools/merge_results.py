#!/usr/bin/env python3
"""Merges outputs of tools/alt_matrix.py (later files override earlier ones, per seed and check) into
seeded/RESULTS.json or variants/RESULTS.json: {name: {check: {exit, signature}}}.
usage: tools/merge_results.py <out.json> <alt_matrix.json> [...]"""
import json, re, sys

out, ins = sys.argv[1], sys.argv[2:]
res = {}
for p in ins:
    for name, v in json.load(open(p)).items():
        if v.get("applies") is False or v.get("builds") is False:
            res[name] = {k: v[k] for k in ("applies", "builds") if k in v}
            continue
        for cid, x in v.items():
            if not isinstance(x, dict):
                continue
            sig = None
            line = x.get("line") or ""
            m = re.match(r"violation (\S+?):? ", line)
            if m:
                sig = m.group(1).rstrip(":")
            elif line.startswith("INCONCLUSIVE"):
                sig = line[:160]
            res.setdefault(name, {})[cid] = {"exit": x["exit"], "signature": sig}
json.dump(res, open(out, "w"), indent=1, sort_keys=True)
caught = sum(1 for v in res.values() if any(isinstance(x, dict) and x.get("exit") == 1 for x in v.values()))
print("%d entries, %d with at least one check exiting 1" % (len(res), caught))
