#!/bin/bash
# usage: tools/collect_seed.sh <round-dir> <ID> <sufA> <sufB>   e.g. /tmp/seedgen/out3 C04 E F
# copies a sub-agent's two deliverables into seeded/<ID><suf>/, removes its worktree, confirms them.
d=$1; id=$2; a=$3; b=$4
for pair in "A:$a" "B:$b"; do
  src=${pair%%:*}; suf=${pair##*:}
  [ -f $d/$id/$src/patch.diff ] || { echo "$id/$src: no patch"; continue; }
  mkdir -p /verif/seeded/$id$suf && cp $d/$id/$src/patch.diff $d/$id/$src/meta.json /verif/seeded/$id$suf/ && cp $d/$id/$src/demo_test.go /verif/seeded/$id$suf/ 2>/dev/null
  ls $d/$id/$src | grep -v -E "^(patch.diff|meta.json|demo_test.go)$" | while read f; do cp -r $d/$id/$src/$f /verif/seeded/$id$suf/; done
done
[ -f $d/$id/A/patch.diff ] && [ -f $d/$id/B/patch.diff ] || { echo "$id: deliverables incomplete, worktree kept"; exit 0; }
for wt in /tmp/seedgen/wt3-$id /tmp/seedgen/wt4-$id /tmp/seedgen/wt5-$id; do [ -d $wt ] && git -C /repo worktree remove --force $wt; done
/verif/tools/verify_seed.sh $id$a $id$b
