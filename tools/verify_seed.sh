#!/bin/bash
# usage: tools/verify_seed.sh <seeded-name>...
# Confirms a sub-agent's seeded defect in a scratch worktree of /repo HEAD:
#   patch applies; builds with and without the verif tag; the repository suite passes with the change;
#   the demonstration fails with the change and passes without it. Writes the outcome into meta.json ("confirmed").
export GOFLAGS=-mod=mod GOPROXY=off GOSUMDB=off GOTOOLCHAIN=local
for name in "$@"; do
  dir=/verif/seeded/$name
  [ -f $dir/demo_test.go ] || { echo "$name: no demo"; continue; }
  wt=/tmp/vs-$name
  git -C /repo worktree remove --force $wt >/dev/null 2>&1
  git -C /repo worktree add -q --detach $wt HEAD || { echo "$name: worktree failed"; continue; }
  res=$(python3 - "$dir" "$wt" <<'PY'
import json,sys,subprocess,os,re,shutil
d,wt=sys.argv[1],sys.argv[2]
m=json.load(open(d+'/meta.json'))
loc=(m.get('demo_location') or '').split()[0] if m.get('demo_location') else 'demo_seed_test.go'
loc=loc.strip('`').rstrip(',;:')
if not loc.endswith('_test.go'):
    mm=re.search(r'([\w/.\-]+_test\.go)', m.get('demo_location') or '')
    loc=mm.group(1) if mm else 'demo_seed_test.go'
cmd=m.get('demo_cmd') or ''
cmd=re.sub(r'\s*\([^()]*\)\s*$','',cmd)
# a command that first copies the demo somewhere ("cp demo_test.go <repo>/x_test.go; cd <repo> && go test ..."): the copy is
# done here (to the named file), only the go test part is run, in the directory the command changes into
mcp=re.search(r'cp\s+\S*demo_test\.go\s+(?:<repo>|\$\w+|\.)/?(\S+_test\.go)', cmd)
if mcp: loc=mcp.group(1)
mgo=re.search(r'(go test[^;&|]*)', cmd)
if mgo and ('<repo>' in cmd or mcp):
    sub=re.search(r'cd\s+<repo>/(\S+)', cmd)
    cmd=('cd %s && ' % sub.group(1) if sub else '')+mgo.group(1).strip()
if 'GOFLAGS' not in cmd: cmd='export GOFLAGS=-mod=mod GOPROXY=off GOSUMDB=off GOTOOLCHAIN=local; '+cmd
def sh(c,timeout=900):
    try:
        r=subprocess.run(['bash','-c',c],cwd=wt,stdout=subprocess.PIPE,stderr=subprocess.STDOUT,text=True,timeout=timeout)
        return r.returncode,r.stdout
    except subprocess.TimeoutExpired:
        return 124,'timeout'
out={}
rc,o=sh('git apply --3way %s/patch.diff && git reset -q'%d)
if rc!=0:
    rc,o=sh('git checkout -q -- . ; git apply %s/patch.diff'%d)
out['applies']=(rc==0)
if rc==0:
    rc,o=sh('go build ./... && go build -tags verif ./...'); out['builds']=(rc==0)
    suite_ok=False
    for attempt in range(3):
        rc,o=sh('go test -vet=off -count=1 ./... 2>&1')
        if rc==0: suite_ok=True; break
        if 'address already in use' not in o and 'connection refused' not in o: break
    out['suite_passes_with_change']=suite_ok
    if not suite_ok: out['suite_output']=o[-600:]
    dst=os.path.join(wt,loc); os.makedirs(os.path.dirname(dst) or wt,exist_ok=True); shutil.copy(d+'/demo_test.go',dst)
    rc,o=sh(cmd,600); out['demo_fails_with_change']=(rc!=0); out['demo_with_change_tail']=o[-300:]
    os.remove(dst)
    sh('git checkout -q -- . ; git clean -fdq')
    shutil.copy(d+'/demo_test.go',dst)
    ok=False
    for attempt in range(2):
        rc,o=sh(cmd,600)
        if rc==0: ok=True; break
    out['demo_passes_without_change']=ok
    if not ok: out['demo_without_change_tail']=o[-400:]
head=subprocess.run(['git','-C','/repo','rev-parse','--short','HEAD'],stdout=subprocess.PIPE,text=True).stdout.strip()
out['at_commit']=head
m['confirmed']=out
json.dump(m,open(d+'/meta.json','w'),indent=1)
print({k:v for k,v in out.items() if not k.endswith('tail') and k!='suite_output'})
PY
)
  echo "$name: $res"
  git -C /repo worktree remove --force $wt >/dev/null 2>&1
  rm -rf $wt
done
